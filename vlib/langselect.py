"""C10: documents per language and route, python oracle (property reading, from tables.json only)."""
from . import common
from .tables import rows, hx, first


def mb(v):
    out = [v & 0x7F]
    v >>= 7
    while v:
        out.insert(0, 0x80 | (v & 0x7F))
        v >>= 7
    return bytes(out)


def body_for(tj, l):
    tg = rows(tj, l, "tags") or []
    if not tg:
        return bytes([5])
    r = tg[0]
    return (bytes([0, r[1]]) if r[1] else b"") + bytes([r[2]])


def wdoc(version, pid, charset, strtbl, body):
    return bytes([version]) + pid + (b"" if version == 0 else mb(charset)) + mb(len(strtbl)) + strtbl + body


def mixcase(s, rng):
    return "".join(c.upper() if rng.chance(1, 2) else c.lower() for c in s)


def by_num(tj, n):
    return first(l for l in tj["langs"] if l["pub_num"] == n) if n != 1 else None


def by_text(tj, s):
    return first(l for l in tj["langs"] if l["pub_text"] is not None and l["pub_text"].lower() == s.lower())


def wbxml_cases(tj, rng, forcings_per_doc=None):
    """list of dict(line, oracle, kind, lang, route, forced)"""
    ids = [l["id"] for l in tj["langs"]]
    cases = []
    for l in tj["langs"]:
        body = body_for(tj, l)
        docs = []
        if l["pub_num"] != 1:
            for ver in (3, 0, 1, 2):
                docs.append(("num-v%d" % ver, wdoc(ver, mb(l["pub_num"]), 106, b"", body), l["id"]))
            docs.append(("num-cs3", wdoc(3, mb(l["pub_num"]), 3, b"", body), l["id"]))
            docs.append(("num-cs0", wdoc(3, mb(l["pub_num"]), 0, b"", body), l["id"]))
            docs.append(("num-strtbl", wdoc(3, mb(l["pub_num"]), 106, b"abc\0", body), l["id"]))
        if l["pub_text"] is not None:
            t = l["pub_text"].encode()
            for name, s in (("txt", t), ("txt-lower", t.lower()), ("txt-upper", t.upper()), ("txt-mixed", mixcase(l["pub_text"], rng).encode())):
                docs.append((name, wdoc(3, b"\0" + mb(0), 106, s + b"\0", body), l["id"]))
            docs.append(("txt-v0", wdoc(0, b"\0" + mb(0), 106, t + b"\0", body), l["id"]))
            docs.append(("txt-ascii", wdoc(3, b"\0" + mb(0), 3, t + b"\0", body), l["id"]))
            junk = bytes(rng.range(97, 122) for _ in range(rng.range(1, 200))) + b"\0"
            docs.append(("txt-offset", wdoc(3, b"\0" + mb(len(junk)), 106, junk + t + b"\0", body), l["id"]))
            docs.append(("txt-unterminated", wdoc(3, b"\0" + mb(0), 106, t, body), l["id"]))
            docs.append(("txt-latin1", wdoc(3, b"\0" + mb(0), 4, t + b"\0", body), None))          # no converter: model/C only
            docs.append(("txt-tail", wdoc(3, b"\0" + mb(1), 106, t + b"\0", body), "err"))         # index 1: the id without its first character
            # a proper prefix of the identifier (incl. the empty string) and the identifier with something appended are other strings
            for k in sorted(set([0, 1, len(t) // 2, len(t) - 1, rng.range(1, len(t) - 1)])):
                docs.append(("txt-prefix%d" % k, wdoc(3, b"\0" + mb(0), 106, t[:k] + b"\0", body), "err"))
            docs.append(("txt-extended", wdoc(3, b"\0" + mb(0), 106, t + rng.choice([b"X", b" ", b"/EN"]) + b"\0", body), "err"))
        docs.append(("none", wdoc(3, b"\x01", 106, b"", body), "err"))
        docs.append(("num-unknown", wdoc(3, mb(rng.choice([0x7E, 0x2000, 0x0F, 0x11, 0xFD0])), 106, b"", body), "err"))
        docs.append(("txt-unknown", wdoc(3, b"\0" + mb(0), 106, b"-//NO//SUCH//EN\0", body), "err"))
        docs.append(("idx-out-of-table", wdoc(3, b"\0" + mb(40), 106, b"abc\0", body), "err"))
        docs.append(("idx-no-table", wdoc(3, b"\0" + mb(0), 106, b"", body), "err"))
        for route, doc, want in docs:
            fs = [0] + ids + [9999]
            for f in fs:
                if f == 0:
                    orc = None if want is None else ("err" if want == "err" else "ok %d" % want)
                elif f in ids:
                    orc = "ok %d" % f
                else:
                    orc = None          # forcing an unregistered id: the property is silent (model: error)
                cases.append(dict(line="w %d 0 %s" % (f, doc.hex()), oracle=orc, kind="wbxml-" + route.split("-")[0], lang=l["id"], route=route, forced=f))
    # wbxml_parser_set_main_table: the same documents against a custom table (standard entries reversed / without the
    # first 5 / 12): model (select_lang is parametric in the table) vs C; the oracle speaks where the table order cannot
    # matter (a forced language that is in the table)
    nl = len(tj["langs"])
    for c in list(cases):
        if c["forced"] in (0, c["lang"]) and c["route"] in ("num-v3", "num-v0", "txt", "txt-lower", "txt-offset", "none", "txt-unknown", "txt-prefix0"):
            for mode in ("rev", "drop5", "drop12"):
                f, _, doc = c["line"].split(" ")[1:]
                gone = {"rev": 0, "drop5": 5, "drop12": 12}[mode]
                present = {l["id"] for l in tj["langs"][gone:]}
                orc = ("ok %d" % c["forced"]) if (c["forced"] and c["forced"] in present) else None
                cases.append(dict(line="t %s %s 0 %s" % (mode, f, doc), oracle=orc, kind="wbxml-custom-table", lang=c["lang"], route=mode + "-" + c["route"], forced=c["forced"]))
    # malformed / truncated headers: model vs C only
    base = wdoc(3, mb(5), 106, b"abc\0", b"\x05")
    for k in range(0, len(base)):
        cases.append(dict(line="w 0 0 %s" % (base[:k].hex() or "-"), oracle=None, kind="wbxml-truncated", lang=1301, route="prefix-%d" % k, forced=0))
    for bad in (bytes([3]) + b"\x81\x81\x81\x81\x81\x01" + b"\x6a\x00\x05", bytes([3, 5]) + mb(999) + b"\x00\x05", bytes([3, 5, 0x6a]) + mb(50) + b"ab",
                bytes([3, 0]) + b"\x8f\xff\xff\xff\x7f" + b"\x6a\x04abc\0\x05", bytes([3, 5, 0, 0, 5])):
        for meta in (0, 3, 4):
            cases.append(dict(line="w 0 %d %s" % (meta, bad.hex()), oracle=None, kind="wbxml-malformed", lang=0, route="malformed", forced=0))
    return cases


def reuse_cases(tj, rng):
    """one WBXMLParser object parses two documents in a row: the second must be judged on its own
    (numeric id then string-table id, string-table id then numeric id, id then nothing, ...)"""
    cases = []
    langs = tj["langs"]
    num = [l for l in langs if l["pub_num"] != 1]
    txt = [l for l in langs if l["pub_text"] is not None]

    def ndoc(l):
        return wdoc(3, mb(l["pub_num"]), 106, b"", body_for(tj, l))

    def tdoc(l, s=None):
        return wdoc(3, b"\0" + mb(0), 106, (s if s is not None else l["pub_text"].encode()) + b"\0", body_for(tj, l))
    none = wdoc(3, b"\x01", 106, b"", b"\x05")
    unk_t = tdoc(langs[0], b"-//NO//SUCH//EN")
    unk_n = wdoc(3, mb(0x7E), 106, b"", b"\x05")

    def add(kind, d1, w1, d2, w2, lang):
        o = lambda w: "err" if w is None else "ok %d" % w["id"]
        cases.append(dict(line="r 0 0 %s %s" % (d1.hex(), d2.hex()), oracle="%s ; %s" % (o(w1), o(w2)), kind=kind, lang=lang, route=kind, forced=0))
    for l in num:
        for o in [x for x in txt if x["id"] != l["id"]]:
            add("reuse-num-then-txt", ndoc(l), l, tdoc(o), o, l["id"])
        add("reuse-num-then-unknown-txt", ndoc(l), l, unk_t, None, l["id"])
        add("reuse-num-then-none", ndoc(l), l, none, None, l["id"])
        o = rng.choice([x for x in num if x["id"] != l["id"]])
        add("reuse-num-then-num", ndoc(l), l, ndoc(o), o, l["id"])
    for l in txt:
        o = rng.choice([x for x in num if x["id"] != l["id"]])
        add("reuse-txt-then-num", tdoc(l), l, ndoc(o), o, l["id"])
        add("reuse-txt-then-unknown-num", tdoc(l), l, unk_n, None, l["id"])
        add("reuse-txt-then-none", tdoc(l), l, none, None, l["id"])
        o = rng.choice([x for x in txt if x["id"] != l["id"]])
        add("reuse-txt-then-txt", tdoc(l), l, tdoc(o), o, l["id"])
    return cases


def header_form(l, anon):
    """python reading of wbxml_fill_header (current tree: D26 fixed): ('num', n) | ('idx', text)"""
    if anon:
        return ("num", 1)
    if l["pub_num"] != 1:
        return ("num", l["pub_num"])
    if l["pub_text"] is not None:
        return ("idx", l["pub_text"])
    return ("num", 1)


def parse_wbxml_header(b):
    """-> ('num', n) | ('idx', text) of a WBXML document produced by the encoder"""
    def rd(i):
        v = 0
        while True:
            c = b[i]
            i += 1
            v = (v << 7) | (c & 0x7F)
            if not c & 0x80:
                return v, i
    ver = b[0]
    if b[1] == 0:
        idx, i = rd(2)
        num = None
    else:
        num, i = rd(1)
        idx = None
    if ver != 0:
        cs, i = rd(i)
    ln, i = rd(i)
    st = b[i:i + ln]
    if num is not None:
        return ("num", num)
    s = st[idx:].split(b"\0")[0].decode("latin-1")
    return ("idx", s)


NS_DECL = {"o-ex": "http://odrl.net/1.1/ODRL-EX"}


def xml_for(root, ns=None, doctype=None, dtname=None, bare=False):
    """returns (xml text, Expat localName of the root); dtname = name written in the DOCTYPE (default: the root's),
    bare = a DOCTYPE without external identifier"""
    attrs = ""
    local = root
    if ":" in root:
        p, n = root.split(":", 1)
        attrs = ' xmlns:%s="%s"' % (p, NS_DECL.get(p, "urn:x"))
        local = NS_DECL.get(p, "urn:x") + "|" + n
    elif ns is not None:
        attrs = ' xmlns="%s"' % ns
        local = ns + "|" + root
    head = '<?xml version="1.0"?>'
    if bare:
        head += '<!DOCTYPE %s>' % (dtname or root)
    elif doctype is not None:
        pub, sys_ = doctype
        head += '<!DOCTYPE %s %s>' % (dtname or root, ('PUBLIC "%s" "%s"' % (pub, sys_)) if pub is not None else ('SYSTEM "%s"' % sys_))
    return head + "<%s%s/>" % (root, attrs), local


# where several languages share an identifier the FIRST REGISTERED one is chosen, consistently: the choice that the
# released tables make is pinned here (same list as LangSelectCheck.pinned_shared_identifiers), so that a reordering
# of the main table shows up as a concrete document that is now read as another language
PINNED_CHOICE = {("system-id", "http://www.microsoft.com/"): 2401, ("root", "wml"): 1101, ("root", "channel"): 1203,
                 ("root", "SyncML"): 2201, ("root", "DevInf"): 2202, ("root", "MetInf"): 2203, ("root", "WV-CSP-Message"): 2301,
                 ("ns-root", "syncml:devinf"): 2202}


def pinned(tj, route, value, want):
    k = PINNED_CHOICE.get((route, value))
    if k is None:
        return want
    return first(l for l in tj["langs"] if l["id"] == k) or want


def xml_cases(tj, rng):
    cases = []

    def add(kind, l, xml, local, pub, sys_, want, anon=0, key=None):
        if want is None:
            orc = "err"
        else:
            f = header_form(want, anon)
            orc = "ok %s %s" % (f[0], f[1])
        cases.append(dict(line="x 0 %d %s" % (anon, xml.encode().hex()), model_line="X %s %s %s 0 %d" % (hx(pub), hx(sys_), hx(local), anon),
                          oracle=orc, kind=kind, lang=l["id"], route=kind, forced=0, xml=xml, pending=key))
    langs = tj["langs"]
    for l in langs:
        root = l["root"]
        others = [o for o in langs if o["root"] != root and ":" not in o["root"]]
        o = rng.choice(others)
        if l["pub_text"] is not None:
            for form in (l["pub_text"], l["pub_text"].lower(), l["pub_text"].upper()):
                xml, local = xml_for(root, doctype=(form, l["dtd"]))
                add("xml-pubid", l, xml, local, form, l["dtd"], l)
            xml, local = xml_for(o["root"], doctype=(l["pub_text"], o["dtd"]))      # public id beats system id and root of another language
            add("xml-pubid-precedence", l, xml, local, l["pub_text"], o["dtd"], l)
            xml, local = xml_for(root, doctype=(l["pub_text"], l["dtd"]))
            add("xml-pubid-anon", l, xml, local, l["pub_text"], l["dtd"], l, anon=1)
        if l["dtd"] is not None:
            want = pinned(tj, "system-id", l["dtd"], first(x for x in langs if x["dtd"] == l["dtd"]))
            xml, local = xml_for(root, doctype=(None, l["dtd"]))
            add("xml-sysid", l, xml, local, None, l["dtd"], want)
            xml, local = xml_for(o["root"], doctype=("-//NO//SUCH//EN", l["dtd"]))   # unknown public id, system id beats the root
            add("xml-sysid-precedence", l, xml, local, "-//NO//SUCH//EN", l["dtd"], want)
        want = pinned(tj, "root", root, first(x for x in langs if x["root"] == root))
        xml, local = xml_for(root)
        add("xml-root", l, xml, local, None, None, want, key=("xml-root:" + root) if ":" in root else None)
        xml, local = xml_for(root, doctype=("-//NO//SUCH//EN", "no-such.dtd"))
        add("xml-root-unknown-doctype", l, xml, local, "-//NO//SUCH//EN", "no-such.dtd", want, key=("xml-root:" + root) if ":" in root else None)
        # the NAME written in a DOCTYPE selects nothing: a DOCTYPE without (known) identifiers leaves the choice to the root
        # element, also when its name is the root name of a language registered earlier
        xml, local = xml_for(root, bare=True)
        add("xml-root-bare-doctype", l, xml, local, None, None, want, key=("xml-root:" + root) if ":" in root else None)
        if ":" not in root:
            xml, local = xml_for(root, doctype=("-//NO//SUCH//EN", "no-such.dtd"), dtname=o["root"])
            add("xml-root-doctype-names-other-language", l, xml, local, "-//NO//SUCH//EN", "no-such.dtd", want)
            xml, local = xml_for(root, bare=True, dtname=o["root"])
            add("xml-root-bare-doctype-names-other-language", l, xml, local, None, None, want)
        ns = rows(tj, l, "ns")
        if ns:
            ns0 = ns[0][0]
            want = first(x for x in langs if (rows(tj, x, "ns") or [[None]])[0][0] is not None and rows(tj, x, "ns")[0][0].lower() == ns0.lower())
            want = pinned(tj, "ns-root", ns0.lower(), want)
            xml, local = xml_for(root, ns=ns0)
            add("xml-nsroot", l, xml, local, None, None, want)
            xml, local = xml_for(root, ns=ns0.swapcase())
            add("xml-nsroot-case", l, xml, local, None, None, want)
            xml, local = xml_for(root, ns=ns0, bare=True)
            add("xml-nsroot-bare-doctype", l, xml, local, None, None, want)
            xml, local = xml_for(root, ns=ns0, doctype=("-//NO//SUCH//EN", "no-such.dtd"))
            add("xml-nsroot-unknown-doctype", l, xml, local, "-//NO//SUCH//EN", "no-such.dtd", want)
    # a namespaced root whose namespace opens no table is recognised by the local name of its root element
    # (fix 8a5d5ba: <MetInf xmlns="syncml:metinf">, DRMREL o-ex:rights, and any foreign namespace)
    for l in langs:
        loc = l["root"].rsplit(":", 1)[-1]
        want = first(x for x in langs if x["root"].rsplit(":", 1)[-1] == loc)
        want = pinned(tj, "root", l["root"], want)
        xml, local = xml_for(loc, ns="urn:no-such-namespace")
        add("xml-local-root-foreign-ns", l, xml, local, None, None, want)
    for l in langs:
        if l["root"] == "MetInf":
            xml, local = xml_for("MetInf", ns="syncml:metinf")
            add("xml-nsroot-no-ns-table", l, xml, local, None, None, pinned(tj, "root", "MetInf", first(x for x in langs if x["root"] == "MetInf")), key="xml-nsroot:syncml:metinf|MetInf")
    for xml, local in (xml_for("nosuchroot"), xml_for("nosuchroot", doctype=("-//NO//SUCH//EN", "no-such.dtd")), xml_for("nosuch", ns="urn:none"), xml_for("WML"), xml_for("Si")):
        cases.append(dict(line="x 0 0 %s" % xml.encode().hex(), model_line="X %s %s %s 0 0" % (("~", "~") if "DOCTYPE" not in xml else (hx("-//NO//SUCH//EN"), hx("no-such.dtd")), ) + (hx(local),) if False else
                          "X %s %s %s 0 0" % (hx("-//NO//SUCH//EN") if "DOCTYPE" in xml else "~", hx("no-such.dtd") if "DOCTYPE" in xml else "~", hx(local)),
                          oracle="err", kind="xml-unknown", lang=0, route="xml-unknown", forced=0, xml=xml, pending=None))
    return cases


def conv_cases(tj, rng):
    """wbxml_conv_wbxml2xml_run: DOCTYPE of the produced XML names the language chosen"""
    cases = []
    langs = tj["langs"]
    for l in langs:
        body = body_for(tj, l)
        docs = []
        if l["pub_num"] != 1:
            docs.append(("num", wdoc(3, mb(l["pub_num"]), 106, b"", body)))
        if l["pub_text"] is not None:
            docs.append(("txt", wdoc(3, b"\0" + mb(0), 106, l["pub_text"].upper().encode() + b"\0", body)))
        docs.append(("none", wdoc(3, b"\x01", 106, b"", body)))
        for route, doc in docs:
            for f in [0, l["id"], rng.choice(langs)["id"]]:
                want = (l if route != "none" else None) if f == 0 else first(x for x in langs if x["id"] == f)
                cases.append(dict(line="W %d %s" % (f, doc.hex()), want=want, kind="conv-" + route, lang=l["id"], route=route, forced=f))
    return cases
