"""Helpers of the parser checks (C04, C13).

build_driver: same as vlib.common.build_driver, except that the copied driver/conv.ml is made
robust against the extracted Coq `string` type (Model.string shadows OCaml's string after
`open Model` as soon as Gen/TablesData is extracted): `string` type annotations in conv.ml are
rewritten to Stdlib.String.t in the build directory (driver/conv.ml itself is not touched).
"""
import hashlib
import os
import re
import shutil

from . import common
from .common import BUILD, COQ, VERIF, Lock, BuildError, coq_make, sh


def build_driver(name, extra_ml=()):
    d = os.path.join(BUILD, "ml", name)
    os.makedirs(d, exist_ok=True)
    ext = os.path.join(COQ, "Extract", "Extract_%s.v" % name)
    drv = os.path.join(VERIF, "driver", "%s_driver.ml" % name)
    exe = os.path.join(d, name + "_driver")
    with Lock("ml-" + name):
        txt = open(ext).read()
        mods = re.findall(r"Wbxml\.(\w+)\.(\w+)", txt)
        targets = ["%s/%s.vo" % (a, b) for a, b in mods]
        ok, lg = coq_make(targets)
        if not ok:
            raise BuildError("Coq build of model for extraction failed:\n" + lg[-3000:])
        deps = [ext, drv, __file__] + [os.path.join(COQ, t) for t in targets] + \
               [os.path.join(VERIF, "driver", m) for m in ("conv.ml",) + tuple(extra_ml)]
        stamp = hashlib.sha256()
        for f in deps:
            stamp.update(open(f, "rb").read())
        sfile = os.path.join(d, "stamp")
        if os.path.exists(exe) and os.path.exists(sfile) and open(sfile).read() == stamp.hexdigest():
            return exe
        rc, out, err = sh(["coqc", "-Q", COQ, "Wbxml", "-w", "-all", ext, "-o", os.path.join(d, "Extract_%s.vo" % name)], cwd=d)
        if rc != 0:
            raise BuildError("extraction failed:\n" + err[-3000:])
        srcs = ["model.mli", "model.ml"]
        conv = open(os.path.join(VERIF, "driver", "conv.ml")).read()
        conv = re.sub(r":\s*string\b", ": Stdlib.String.t", conv)
        with open(os.path.join(d, "conv.ml"), "w") as f:
            f.write(conv)
        srcs.append("conv.ml")
        for m in tuple(extra_ml):
            shutil.copy(os.path.join(VERIF, "driver", m), d)
            srcs.append(m)
        shutil.copy(drv, d)
        srcs.append(os.path.basename(drv))
        rc, out, err = sh(["ocamlfind", "ocamlopt", "-O3", "-w", "-a", "-package", "str", "-linkpkg"] + srcs + ["-o", exe], cwd=d)
        if rc != 0:
            rc, out, err = sh(["ocamlfind", "ocamlopt", "-w", "-a", "-package", "str", "-linkpkg"] + srcs + ["-o", exe], cwd=d)
        if rc != 0:
            raise BuildError("ocaml build failed:\n" + err[-3000:])
        with open(sfile, "w") as f:
            f.write(stamp.hexdigest())
    return exe
