"""Case streams of the parser checks (C04, C13): corpus, fuzz files, systematic, grammar, charsets,
nested, malformed.  Every case is a dict:
   {line: "p <forced> <meta> <hex>", kind, bytes, doc (wf generator documents only), must_fail (C13 oracle), ...}
"""
import glob
import os

from . import common
from . import parser_gen as pg
from .common import Rng


def pline(forced, meta, bs):
    return "p %d %d %s" % (forced, meta, bs.hex() if bs else "-")


def cline(forced, meta, bs):
    return "c %d %d %s" % (forced, meta, bs.hex() if bs else "-")


def corpus_wbxml(harness):
    """WBXML of the project's test documents, produced by the library's own XML->WBXML converter
    (with and without string table); returns [(name, bytes)]"""
    files = sorted(glob.glob(os.path.join(common.REPO, "test", "tools", "**", "*.xml"), recursive=True))
    lines, names = [], []
    for f in files:
        data = open(f, "rb").read()
        for nostr in (0, 1):
            lines.append("x %d 0 %s" % (nostr, data.hex()))
            names.append("%s%s" % (os.path.relpath(f, os.path.join(common.REPO, "test", "tools")), "#nostrtbl" if nostr else ""))
    ans, crashes = common.run_lines(harness, lines)
    out = []
    seen = set()
    for nm, a in zip(names, ans):
        if a and a.startswith("ok ") and a[3:] not in seen and a[3:] != "-":
            seen.add(a[3:])
            out.append((nm, bytes.fromhex(a[3:])))
    return out, len(files), crashes


def fuzz_files():
    out = []
    for f in sorted(glob.glob(os.path.join(common.REPO, "test", "fuzz", "*.fuzz"))):
        out.append((os.path.basename(f)[:24], open(f, "rb").read()))
    return out


def doc_case(d, kind):
    bs, fields, root_end = pg.serialize(d)
    return {"line": pline(d["forced"], d["meta"], bs), "kind": kind, "bytes": bs, "doc": d, "fields": fields,
            "root_end": root_end, "forced": d["forced"], "meta": d["meta"]}


def raw_case(bs, kind, forced=0, meta=0, **kw):
    c = {"line": pline(forced, meta, bs), "kind": kind, "bytes": bs, "forced": forced, "meta": meta}
    c.update(kw)
    return c


def grammar_docs(seed, T, per_lang, stream=40, wf=True, strict=False, max_depth=4):
    docs = []
    for k, lid in enumerate(T.order):
        rng = Rng(seed, stream * 1000 + k)
        for i in range(per_lang):
            g = pg.Gen(rng, T, lid, max_depth=max_depth if i % 7 else max_depth + 3, max_items=4 if i % 5 else 8, wf=wf)
            docs.append(g.doc(strict=strict))
    return docs


def charset_cases(seed, T, docs, n):
    """the same documents under other charset declarations (unsupported converters, UTF-16 termination rules,
    unknown MIB numbers) and meta charsets"""
    rng = Rng(seed, 77)
    out = []
    for i in range(n):
        d = dict(rng.choice(docs))
        if d["ver"] == 0:
            d["ver"] = 3
        d["charset"] = rng.choice([4, 5, 12, 17, 1000, 1015, 2026, 999, 1, 2, 107, 65535])
        out.append(doc_case(d, "charset-other"))
    for i in range(n // 2):
        d = dict(rng.choice(docs))
        d["meta"] = rng.choice([3, 106, 4, 1015, 999])
        if rng.chance(1, 2) and d["ver"] != 0:
            d["charset"] = 0
        out.append(doc_case(d, "charset-meta"))
    # hand-made UTF-16 / UCS-2 strings: aligned and unaligned double NUL, missing terminator
    for cs in (1000, 1015):
        for body in (b"a\0b\0\0\0", b"a\0\0\0", b"ab\0\0", b"a\0\0b\0\0", b"a\0b\0", b"\0\0", b"a\0\0", b""):
            bs = bytes([3, 4]) + pg.mb(cs) + b"\0" + bytes([0x7F, 3]) + body + b"\x01"
            out.append(raw_case(bs, "charset-utf16"))
            bs = bytes([3, 4]) + pg.mb(cs) + pg.mb(len(body)) + body + bytes([0x7F, 0x83, 0, 1])
            out.append(raw_case(bs, "charset-utf16"))
    return out


def malformed_cases(seed, docs_cases, n_prefix_docs, n_flip, T):
    rng = Rng(seed, 91)
    out = []
    # every proper prefix
    sel = docs_cases if len(docs_cases) <= n_prefix_docs else [docs_cases[rng.below(len(docs_cases))] for _ in range(n_prefix_docs)]
    for c in sel:
        bs = c["bytes"]
        for k in range(0, len(bs)):
            out.append(raw_case(bs[:k], "prefix", c["forced"], c["meta"], must_fail=(k < c["root_end"]), of=c))
    # field replacements and unterminated strings
    for c in docs_cases:
        if "doc" not in c:
            continue
        for kind, desc, m, must in pg.field_replacements(c["doc"], c["bytes"], c["fields"]):
            out.append(raw_case(m, "field-" + kind, c["forced"], c["meta"], must_fail=must, desc=desc, of=c))
    for c in sel:
        if "doc" not in c:
            continue
        for kind, desc, m, must in pg.unterminated_strings(c["doc"], c["bytes"], c["fields"]):
            out.append(raw_case(m, "unterminated-string", c["forced"], c["meta"], must_fail=must, desc=desc, of=c))
    # byte flips / insertions / deletions
    for _ in range(n_flip):
        c = docs_cases[rng.below(len(docs_cases))]
        b = bytearray(c["bytes"])
        for _ in range(rng.range(1, 3)):
            if not b:
                break
            op = rng.below(4)
            i = rng.below(len(b))
            if op == 0:
                b[i] ^= 1 << rng.below(8)
            elif op == 1:
                b[i] = rng.choice([0, 1, 2, 3, 4, 0x40, 0x43, 0x44, 0x80, 0x83, 0x84, 0xC0, 0xC3, 0xC4, 0xFF, rng.below(256)])
            elif op == 2:
                del b[i]
            else:
                b.insert(i, rng.choice([0, 1, 3, 0x83, 0xC3, rng.below(256)]))
        out.append(raw_case(bytes(b), "byteflip", c["forced"], c["meta"]))
    # short random documents behind a valid header
    for _ in range(n_flip // 4):
        lid = rng.choice(T.order)
        body = bytes(rng.choice([0, 1, 2, 3, 4, 5, 6, 7, 0x43, 0x45, 0x46, 0x83, 0x85, 0xC3, 0xC5, rng.below(256)]) for _ in range(rng.range(0, 24)))
        hdr = bytes([rng.below(4)]) + pg.mb(T.langs[lid]["pub_num"])
        if hdr[0] != 0:
            hdr += pg.mb(rng.choice([106, 3, 0]))
        tb = rng.choice([b"", b"", b"ab\0", b"ab", b"xmlns\0a\0"])
        out.append(raw_case(hdr + pg.mb(len(tb)) + tb + body, "random-body", lid if rng.chance(1, 2) else 0, 0))
    return out


MB_FIELD_KINDS = ("pubnum", "pubidx", "charset", "strtbl_len", "index", "opaque_len", "entity", "ext_t")


def padded_cases(seed, doc_cases, limit):
    """the same abstract documents with mb_u_int32 fields written in a longer form (1..4 leading 0x80 groups, at most five
    octets: WBXML 5.1, no shortest-form rule).  The bytes are no longer serialize(doc); what they denote is what doc denotes,
    so `denote` of the generating document stays the oracle.  Per document: one variant per field kind present (all fields of
    that kind padded by a random amount), one with every field padded to five octets."""
    rng = Rng(seed, 93)
    out = []

    def rewrite(c, chosen, full):
        bs = bytearray(c["bytes"])
        for kind, off, ln in sorted(chosen, key=lambda f: -f[1]):
            room = 5 - ln
            if room <= 0:
                continue
            k = room if full else rng.range(1, room)
            bs[off:off] = bytes([0x80] * k)
        return bytes(bs)

    pool = [c for c in doc_cases if "doc" in c and c.get("fields")]
    for i in range(len(pool) - 1, 0, -1):
        j = rng.below(i + 1)
        pool[i], pool[j] = pool[j], pool[i]
    for c in pool:
        mbf = [f for f in c["fields"] if f[0] in MB_FIELD_KINDS and f[2] < 5]
        kinds = sorted(set(f[0] for f in mbf))
        variants = [(k, [f for f in mbf if f[0] == k], False) for k in kinds] + [("all", mbf, True)]
        for name, chosen, full in variants:
            if not chosen:
                continue
            bs = rewrite(c, chosen, full)
            if bs == c["bytes"]:
                continue
            d = c["doc"]
            out.append({"line": pline(d["forced"], d["meta"], bs), "kind": "padded-" + name, "bytes": bs, "doc": d, "padded": True,
                        "forced": d["forced"], "meta": d["meta"], "root_end": None})
        if len(out) >= limit:
            break
    return out[:limit]


def tolerance_cases(T):
    """the documented irregularities (C13, positive) and a few hand-made edge cases"""
    out = []
    wml = bytes([3, 4, 106])
    # unterminated table is padded; index at declared length and into the padding is refused
    for idx in range(0, 8):
        out.append(raw_case(wml + bytes([2]) + b"ab" + bytes([0x7F, 0x83, idx, 1]), "tol-padding", expect_ok=(idx < 2)))
    # index 0 without string table reads "xmlns" (as STR_T, as literal tag, as literal attribute)
    out.append(raw_case(wml + bytes([0]) + bytes([0x7F, 0x83, 0, 1]), "tol-xmlns", expect_ok=True))
    out.append(raw_case(wml + bytes([0]) + bytes([0x04, 0]), "tol-xmlns", expect_ok=True))
    out.append(raw_case(wml + bytes([0]) + bytes([0xFF, 0x04, 0, 3]) + b"v\0" + bytes([1, 1]), "tol-xmlns", expect_ok=True))
    out.append(raw_case(wml + bytes([0]) + bytes([0x7F, 0x83, 1, 1]), "tol-xmlns", expect_ok=False))
    # trailing bytes after the body are ignored
    for tail in (b"\0", b"\x7f", b"\x01\x01", b"garbage"):
        out.append(raw_case(wml + bytes([0]) + bytes([0x7F, 1]) + tail, "tol-trailing", expect_ok=True))
    # public id not consulted when the language is forced
    for pub in (bytes([1]), bytes([0x7E]), bytes([0, 0]), bytes([0, 0x7F]), bytes([0x8F, 0xFF, 0xFF, 0xFF, 0x7F])):
        out.append(raw_case(bytes([3]) + pub + bytes([106, 0, 0x7F, 1]), "tol-forced", forced=1104, expect_ok=True))
        out.append(raw_case(bytes([3]) + pub + bytes([106, 0, 0x7F, 1]), "tol-forced", forced=0, expect_ok=False))
    # public-id index == 0xFFFFFFFF (the "-1" sentinel)
    out.append(raw_case(bytes([3, 0, 0x8F, 0xFF, 0xFF, 0xFF, 0x7F, 106, 0, 0x7F, 1]), "tol-forced", forced=0))
    # current_tag is reset at the end of every element: text after a child is not typed (WV Code = 0x0B page 0)
    wv = bytes([3, 0x10, 106, 0])
    out.append(raw_case(wv + bytes([0x4B, 0xC3, 1, 5, 1]), "typed-reset"))
    out.append(raw_case(wv + bytes([0x4B, 0x05, 0xC3, 1, 5, 1]), "typed-reset"))
    out.append(raw_case(wv + bytes([0x4B, 0x45, 1, 0xC3, 1, 5, 1]), "typed-reset"))
    out.append(raw_case(wv + bytes([0x4B, 0x44, 0, 0xC3, 1, 5, 1, 1]), "typed-reset"))   # literal child keeps the parent's tag (no table: xmlns)
    out.append(raw_case(wv + bytes([0x4B, 0xC3, 5, 1, 0, 0, 0, 0, 1]), "typed-overflow"))
    out.append(raw_case(wv + bytes([0x51, 0xC3, 6, 0x1F, 0x46, 0xA6, 0x9C, 0x9F, 0x5A, 1]), "typed-datetime"))
    out.append(raw_case(wv + bytes([0x51, 0xC3, 2, 1, 2, 1]), "typed-datetime"))
    # mb_u_int32 in up to FIVE octets (WBXML 1.3, 5.1; the format has no shortest-form rule): every field kind with leading
    # zero groups, entities that need the fifth octet; six octets are refused
    def p5(v, k=4):
        return bytes([0x80] * k + [v])
    wtab = b"-//WAPFORUM//DTD WML 1.1//EN\0"
    for k in (1, 2, 3, 4):
        out.append(raw_case(wml + bytes([0, 0x7F, 0xC3]) + p5(2, k) + b"AB" + bytes([1]), "tol-mb5-opaque-len", expect_ok=True))
        out.append(raw_case(wml + bytes([2]) + b"y\0" + bytes([0x7F, 0x83]) + p5(0, k) + bytes([1]), "tol-mb5-strt-index", expect_ok=True))
        out.append(raw_case(wml + p5(2, k) + b"y\0" + bytes([0x7F, 0x83, 0, 1]), "tol-mb5-strtbl-len", expect_ok=True))
        out.append(raw_case(bytes([3, 4]) + p5(106, k) + bytes([0, 0x7F, 1]), "tol-mb5-charset", expect_ok=True))
        out.append(raw_case(bytes([3]) + p5(4, k) + bytes([106, 0, 0x7F, 1]), "tol-mb5-public-id", expect_ok=True))
        out.append(raw_case(bytes([3, 0]) + p5(0, k) + bytes([106, len(wtab)]) + wtab + bytes([0x7F, 1]), "tol-mb5-public-id-index", expect_ok=True))
        out.append(raw_case(wml + bytes([2]) + b"y\0" + bytes([0x7F, 0x04]) + p5(0, k) + bytes([1]), "tol-mb5-literal-tag", expect_ok=True))
        out.append(raw_case(wml + bytes([2]) + b"y\0" + bytes([0xFF, 0x04]) + p5(0, k) + bytes([3]) + b"v\0" + bytes([1, 1]),
                            "tol-mb5-literal-attr", expect_ok=True))
        out.append(raw_case(wml + bytes([2]) + b"y\0" + bytes([0x7F, 0x80]) + p5(0, k) + bytes([1]), "tol-mb5-ext-t", expect_ok=True))
        out.append(raw_case(wml + bytes([0, 0x7F, 0x02]) + p5(0x41, k) + bytes([1]), "tol-mb5-entity", expect_ok=True))
    for ent in (bytes([0x81, 0x80, 0x80, 0x80, 0x00]), bytes([0x87, 0xFF, 0xFF, 0xFF, 0x7F]), bytes([0x83, 0xA0, 0x80, 0x80, 0x01])):
        out.append(raw_case(wml + bytes([0, 0x7F, 0x02]) + ent + bytes([1]), "tol-mb5-entity-large", expect_ok=True))
        out.append(raw_case(wml + bytes([0, 0xFF, 0x05, 0x02]) + ent + bytes([1, 1]), "tol-mb5-entity-large", expect_ok=True))
    out.append(raw_case(wml + bytes([0, 0x7F, 0x02, 0xFF, 0xFF, 0xFF, 0x7F, 1]), "tol-mb5-entity-large", expect_ok=True))     # four octets (control)
    for body in (bytes([0x7F, 0xC3]) + p5(2, 5) + b"AB" + bytes([1]), bytes([0x7F, 0x02]) + p5(0x41, 5) + bytes([1])):
        out.append(raw_case(wml + bytes([0]) + body, "tol-mb5-six-octets", expect_ok=False))
    # Nokia content switch page
    out.append(raw_case(bytes([3, 0xA4, 0x01, 106, 0, 0x6D, 0x00, 0x01, 0x5A, 0x03]) + b"x\0" + bytes([1, 0, 0, 1]), "tol-content-switch"))
    return out


def nested_cases(T, depths=(1, 2, 10, 50, 200)):
    out = []
    for lid in (1104, 2201, 2402):
        for dp in depths:
            out.append(doc_case(pg.nested_doc(T, lid, dp), "nested-%d" % dp))
    return out


# ---------------------------------------------------------------------------------------------
# SyncML-shaped documents for the tree builder (CDATA rule of <Data>, embedded documents)
# ---------------------------------------------------------------------------------------------

class _Sml:
    def __init__(self, T, lid):
        self.L = T.langs[lid]
        self.lid = lid
        self.rows = {}
        for r in self.L["tags_rows"]:
            self.rows.setdefault(r[0], r)
        self.cp = 0

    def elt(self, name, content, attrs=None):
        r = self.rows[name]
        sw = None
        if r[1] != self.cp:
            sw = r[1]
            self.cp = r[1]
        e = {"sw": sw, "tag": ("T", r[2]), "attrs": attrs or [], "content": None}
        if content is not None:
            e["content"] = [c() if callable(c) else c for c in content]
        return ("E", e)


def syncml_tree_docs(seed, T, n):
    """documents whose <Data> elements exercise wbxml_tree_node_get_syncml_data_type"""
    rng = Rng(seed, 61)
    out = []
    types = [b"text/x-vcard", b"text/x-vcalendar", b"text/clear", b"text/directory;profile=vCard", b"text/plain",
             b"application/vnd.syncml-devinf+wbxml", b"application/vnd.syncml-devinf+xml",
             b"application/vnd.syncml.dmtnds+wbxml", b"application/vnd.syncml.dmtnds+xml", b"text/x-vcard2", b"",
             b"application/vnd.syncml-devinf+wbxml", b"application/vnd.syncml-devinf+wbxml", b"application/vnd.syncml.dmtnds+wbxml"]
    for i in range(n):
        lid = rng.choice([2201, 2101, 2001])
        if "Data" not in {r[0] for r in T.langs[lid]["tags_rows"]}:
            continue
        S = _Sml(T, lid)
        ty = rng.choice(types)
        # an embedded document: DevInf / DM DDF / random
        emb_l = rng.choice([2202, 2102, 2002, 2204])
        eg = pg.Gen(rng, T, emb_l, max_depth=2, max_items=3)
        ed = eg.doc(strict=True)
        ebytes = pg.serialize(ed)[0]
        if ed["forced"] or rng.chance(1, 4):
            ebytes = rng.choice([b"\x03\x01\x6a\x00", bytes(rng.below(256) for _ in range(rng.range(1, 12))), ebytes[: max(1, len(ebytes) // 2)]])

        def data_items():
            items = []
            for _ in range(rng.choice([1, 1, 2, 3])):
                c = rng.below(8)
                if ty.endswith(b"+wbxml") and c < 5:
                    items.append(("O", ebytes))
                elif c < 3:
                    items.append(("S", rng.choice([b"BEGIN:VCARD", b"x", b"END:VCARD\r\n", b"]]>", b"a<b"])))
                elif c < 5:
                    items.append(("O", ebytes if ty.endswith(b"+wbxml") and rng.chance(3, 4) else rng.choice([b"BEGIN:VCARD\r\nEND:VCARD", b"\x01\x02", ebytes])))
                elif c == 5:
                    items.append(("N", rng.choice([65, 0xE9, 0x20AC])))
                elif c == 6 and "Item" in S.rows:
                    items.append(S.elt("Source" if "Source" in S.rows else "Item", [("S", b"in")]))
                else:
                    items.append(("S", b"tail"))
            return items

        meta = lambda: S.elt("Meta", [lambda: S.elt("Type", [("S", ty)] if ty or rng.chance(1, 2) else [])])
        where = rng.below(4)          # where the <Meta> sits: in the command, in the item, both, nowhere
        cmd = rng.choice(["Add", "Replace", "Results", "Put", "Alert"])
        item_content = []
        if where in (1, 2):
            item_content.append(meta)
        if rng.chance(1, 3):
            item_content.append(lambda: S.elt("Source", [lambda: S.elt("LocURI", [("S", b"./1")])]))
        item_content.append(lambda: S.elt("Data", data_items()))
        if rng.chance(1, 4):
            item_content.append(lambda: S.elt("Data", data_items()))
        cmd_content = [lambda: S.elt("CmdID", [("S", b"1")])]
        if where in (0, 2):
            cmd_content.append(meta)
        cmd_content.append(lambda: S.elt("Item", item_content))
        if rng.chance(1, 5):           # a <Data> directly in the command, a <Meta><Data> ...
            cmd_content.append(lambda: S.elt("Data", data_items()))
        body = S.elt("SyncBody", [lambda: S.elt(cmd, cmd_content)])
        root = S.elt("SyncML", [body])[1]
        L = T.langs[lid]
        d = {"lang": lid, "forced": 0, "meta": 0, "ver": rng.choice([2, 3]), "pub": ("N", L["pub_num"]), "charset": 106,
             "strtbl": b"", "pis_before": [], "pis_after": [], "root": root, "stats": {}, "mode": "num", "kind": "syncml-tree"}
        if rng.chance(1, 6):
            # the same shapes with the Data element as root, or with literal-named elements of those names
            d["root"] = S.elt("Data", data_items())[1]
        out.append(doc_case(d, "syncml-tree"))
    return out


def tline(c):
    return "t" + c["line"][1:]


# ---- embedded documents (SyncML <Data> under Meta/Type application/vnd.syncml-devinf+wbxml) ----
_DEVINF_WBXML = b"application/vnd.syncml-devinf+wbxml"


def _mb(n):
    out = [n & 0x7f]
    n >>= 7
    while n:
        out.insert(0, (n & 0x7f) | 0x80)
        n >>= 7
    return bytes(out)


def embedded_chain(depth, leaf=b"x"):
    """a SyncML 1.1 document whose <Data> holds, as an opaque, a document built the same way (depth levels)"""
    inner = leaf if depth == 0 else embedded_chain(depth - 1, leaf)
    body = bytes([0x54, 0x5A, 0x00, 0x01, 0x53, 0x03]) + _DEVINF_WBXML + bytes([0x00, 0x01, 0x00, 0x00, 0x01, 0x4F, 0xC3]) \
        + _mb(len(inner)) + inner + bytes([0x01, 0x01])
    return bytes([0x02, 0x9F, 0x53, 0x6A, 0x00]) + body


def embedded_refs(inner, k):
    """a NUL-free SyncML 1.1 document: `inner` sits in the string table ("x"* ++ inner ++ "Type", unterminated) and
    is referenced by k <Data> elements; Type is a LITERAL tag named by the tail of the table, its content an opaque"""
    junk = b"x"
    while True:
        tbl = junk + inner + b"Type"
        idx = len(junk) + len(inner)
        if 0 not in _mb(len(tbl)) and 0 not in _mb(idx) and 0 not in _mb(len(junk)):
            break
        junk += b"x"
    body = bytes([0x54, 0x5A, 0x44]) + _mb(idx) + bytes([0xC3, 0x23]) + _DEVINF_WBXML + bytes([0x01, 0x01])
    body += (bytes([0x4F, 0x83]) + _mb(len(junk)) + bytes([0x01])) * k + bytes([0x01])
    return bytes([0x02, 0x9F, 0x53, 0x6A]) + _mb(len(tbl)) + tbl + body


def cubic_doc(k):
    """the cubic family of C01c_ex_cubic: k references to a NUL-free embedded document that holds k references to a string of
    k bytes: about 3.5 k + 70 bytes, more than k^3 bytes of XML"""
    tbl = b"y" * (k + 1)
    inner = bytes([0x02, 0x9F, 0x53, 0x6A]) + _mb(len(tbl)) + tbl + bytes([0x54]) + bytes([0x83, 0x01]) * k + bytes([0x01])
    return embedded_refs(inner, k)


def embedded_cases(seed, n_levels=3):
    rng = Rng(seed, 77)
    cases = [raw_case(cubic_doc(k), "embedded-cubic", root_end=0) for k in (4, 8, 16, 24)]
    for d in (0, 1, 2, 3, 5, 8, 13, 21):
        cases.append(raw_case(embedded_chain(d), "embedded-chain", root_end=0))
        cases.append(raw_case(embedded_chain(d, leaf=bytes([0x02, 0x9F, 0x53, 0x6A, 0x00, 0x14])), "embedded-chain", root_end=0))
    doc = bytes([0x02, 0x9F, 0x53, 0x6A, 0x01, 0x78, 0x14])
    for _ in range(n_levels):
        doc = embedded_refs(doc, 1 + rng.below(4))
        cases.append(raw_case(doc, "embedded-refs", root_end=0))
    return cases


# ---------------------------------------------------------------------------------------------
# object reuse: ONE WBXMLParser, several documents; every document must be reported as if it were alone
# ---------------------------------------------------------------------------------------------

def _root_tok(L):
    for r in L["tags_rows"]:
        if r[1] == 0:
            return r[2]
    return 5


def simple_doc(T, lid, textual=False, ver=3, charset=106, strtbl=b"", body=None, pub=None):
    """header + body (default: the empty root element of the language's first page-0 tag)"""
    L = T.langs[lid]
    if textual:
        strtbl = L["pub_text"].encode() + b"\x00" + strtbl
        pubb = b"\x00" + _mb(0)
    else:
        pubb = _mb(L["pub_num"] if pub is None else pub)
    cs = b"" if ver == 0 else _mb(charset)
    return bytes([ver]) + pubb + cs + _mb(len(strtbl)) + strtbl + (bytes([_root_tok(L)]) if body is None else body)


def reuse_sequences(seed, T, pool, n_random):
    """sequences (lists of cases) for one parser object.  The crafted ones cross the case splits of the header and of
    the per-document state: numeric id -> string-table id, table -> no table, forced language -> none, charset given ->
    absent, error -> good document, code page / current element / nesting left over; then random pairs and triples of
    the pool."""
    rng = Rng(seed, 78)
    R = lambda bs, kind, forced=0, meta=0: raw_case(bs, kind, forced, meta)
    seqs = []
    num = [l for l in T.order if T.langs[l]["pub_num"] != 1]
    txt = [l for l in T.order if T.langs[l]["pub_text"]]
    # 1. numeric public id, then a string-table public id (and back); every textual language after some numeric one
    for i, lt in enumerate(txt):
        ln = num[(i * 7 + 3) % len(num)]
        if ln == lt:
            ln = num[(i * 7 + 4) % len(num)]
        a, b = R(simple_doc(T, ln), "reuse-numeric-id"), R(simple_doc(T, lt, textual=True), "reuse-textual-id")
        seqs.append([a, b, a, b] if i % 3 == 0 else [a, b])
        if i % 4 == 0:
            seqs.append([b, a, b])
    # 2. string table, then none (references must dangle), then a shorter one
    wml = T.langs[1104]
    w = lambda tbl, body: simple_doc(T, 1104, strtbl=tbl, body=body)
    with_tbl = R(w(b"abcd\x00efgh\x00", bytes([0x7F, 0x83, 0x00, 0x83, 0x05, 0x01])), "reuse-table")
    def D(bs, kind):       # dangling: refused by a fresh parser, must be refused on a reused one
        c = raw_case(bs, kind)
        c["must_fail"] = True
        return c
    no_tbl_ref = D(w(b"", bytes([0x7F, 0x83, 0x02, 0x01])), "reuse-no-table-ref")
    no_tbl_lit = R(w(b"", bytes([0x44, 0x00, 0x01])), "reuse-no-table-literal")
    no_tbl_pub = D(bytes([0x03, 0x00, 0x00, 0x6A, 0x00, 0x45]), "reuse-no-table-pubidx")
    no_tbl_pub2 = D(bytes([0x03, 0x00, 0x00, 0x6A, 0x00, 0x45, 0x83, 0x05, 0x01]), "reuse-no-table-pubidx")
    short_tbl = D(w(b"ab\x00", bytes([0x7F, 0x83, 0x05, 0x01])), "reuse-short-table")
    txt_si = R(simple_doc(T, 1301, textual=True), "reuse-textual-id")
    for s in ([with_tbl, no_tbl_ref], [with_tbl, no_tbl_lit], [with_tbl, no_tbl_pub], [txt_si, no_tbl_pub], [txt_si, no_tbl_pub2],
              [with_tbl, short_tbl], [with_tbl, no_tbl_ref, with_tbl], [txt_si, no_tbl_ref, no_tbl_pub2]):
        seqs.append(s)
    # 3. forced language, then none
    ota = R(simple_doc(T, 1901, ver=1, pub=1), "reuse-forced", forced=1901)
    unknown_pub = R(simple_doc(T, 1104, pub=1), "reuse-unknown-pubid")
    si = R(simple_doc(T, 1301), "reuse-numeric-id")
    forced_wml = R(simple_doc(T, 1301), "reuse-forced", forced=1104)
    for s in ([ota, unknown_pub], [ota, si], [forced_wml, si], [forced_wml, unknown_pub], [si, forced_wml, si], [ota, txt_si]):
        seqs.append(s)
    # 4. charset given, then absent (WBXML 1.0 has no charset field); meta charset given, then none
    body_str = bytes([0x7F, 0x03, 0xC3, 0xA9, 0x00, 0x01])
    ascii_doc = R(simple_doc(T, 1104, charset=3, body=body_str), "reuse-charset-ascii")
    v10 = R(simple_doc(T, 1104, ver=0, body=body_str), "reuse-charset-absent")
    cs0 = R(simple_doc(T, 1104, charset=0, body=body_str), "reuse-charset-zero")
    cs0_meta = R(simple_doc(T, 1104, charset=0, body=body_str), "reuse-charset-meta", meta=3)
    latin = R(simple_doc(T, 1104, charset=4, body=body_str), "reuse-charset-latin1")
    ucs2 = R(simple_doc(T, 1104, charset=1000, body=body_str), "reuse-charset-ucs2")
    for s in ([ascii_doc, v10], [ascii_doc, cs0], [cs0_meta, cs0], [cs0_meta, v10], [latin, v10], [ucs2, cs0], [latin, cs0, ascii_doc, v10]):
        seqs.append(s)
    # 5. an error document, then a good one: left-over nesting, code pages, current element
    deep = [c for c in pool if c["kind"] in ("nested-1001", "nested-1500")][:2]
    lim = [c for c in pool if c["kind"] in ("nested-1000", "nested-999")][:2]
    for a in deep:
        for b in lim:
            seqs.append([a, b])
            seqs.append([a, a, b])
    sml = T.langs[2101]
    page1_left = R(simple_doc(T, 2101, ver=2, body=bytes([0x6D, 0x00, 0x01, 0x53, 0x03, 0x61, 0x00, 0x01, 0x01])), "reuse-page-left")
    page0_tok = R(simple_doc(T, 2101, ver=2, body=bytes([0x6D, 0x5A, 0x01, 0x01])), "reuse-page0-token")
    page1_trunc = R(simple_doc(T, 2101, ver=2, body=bytes([0x6D, 0x00, 0x01, 0x53])), "reuse-page-left-error")
    apage = R(simple_doc(T, 1202, body=bytes([0xBF, 0x00, 0x01, 0x05, 0x01, 0x01])), "reuse-attr-page-left")
    apage0 = R(simple_doc(T, 1202, body=bytes([0xBF, 0x05, 0x01, 0x01])), "reuse-attr-page0-token")
    wv_typed_trunc = R(simple_doc(T, 2301, body=bytes([0x45, 0x4B])), "reuse-typed-element-error")
    wv_opaque = R(simple_doc(T, 2301, body=bytes([0x45, 0xC3, 0x02, 0x01, 0x00, 0x01])), "reuse-untyped-opaque")
    wv_typed = R(simple_doc(T, 2301, body=bytes([0x45, 0x4B, 0xC3, 0x02, 0x01, 0x00, 0x01, 0x01])), "reuse-typed-opaque")
    for s in ([page1_left, page0_tok], [page1_trunc, page0_tok], [apage, apage0], [wv_typed_trunc, wv_opaque], [wv_typed, wv_opaque],
              [wv_typed_trunc, wv_typed, wv_opaque]):
        seqs.append(s)
    errs = [c for c in pool if c["kind"] in ("prefix", "byteflip", "random-body", "grammar-nonwf") or c["kind"].startswith("field-")]
    good = [c for c in pool if c["kind"] in ("corpus", "grammar", "grammar-strict", "systematic")]
    for k in range(n_random):
        if errs and good and k % 2 == 0:
            s = [errs[rng.below(len(errs))], good[rng.below(len(good))]]
            if k % 6 == 0:
                s.append(errs[rng.below(len(errs))])
                s.append(good[rng.below(len(good))])
        else:
            src = good if good else pool
            s = [src[rng.below(len(src))] for _ in range(2 + rng.below(2))]
        seqs.append(s)
    return [s for s in seqs if sum(len(c["bytes"]) for c in s) < 60000]


def rline(seq):
    return "r %d %s" % (len(seq), " ".join("%d %d %s" % (c["forced"], c["meta"], c["bytes"].hex() if c["bytes"] else "-") for c in seq))


def run_reuse(harness, driver, seqs):
    """runs the sequences on one parser object each; every document's answer must be the answer of the C for that document
    alone (fresh parser) and the model's.  Returns dict(documents, sequences, history_dependent, model_disagreements, crashes)."""
    ra, rcr = common.run_lines(harness, [rline(s) for s in seqs])
    docs = {}
    for s in seqs:
        for c in s:
            docs.setdefault(c["line"], c)
    dl = list(docs)
    fa, fcr = common.run_lines(harness, dl)
    ma, _ = common.run_lines(driver, dl)
    fresh, model = dict(zip(dl, fa)), dict(zip(dl, ma))
    hist, mdis, accepted, n = [], [], [], 0
    kinds = {}
    for s, a in zip(seqs, ra):
        parts = a.split(" || ") if a is not None else [None] * len(s)
        if len(parts) != len(s):
            parts = [None] * len(s)
        for i, (c, pa) in enumerate(zip(s, parts)):
            n += 1
            kinds[c["kind"]] = kinds.get(c["kind"], 0) + 1
            rec = {"kind": "reuse:" + "+".join(x["kind"] for x in s), "position": i,
                   "sequence": [{"forced": x["forced"], "meta": x["meta"], "wbxml": x["bytes"].hex() or "-", "must_fail": x.get("must_fail")} for x in s],
                   "c_reused": (pa or "")[:1500], "c_fresh": (fresh[c["line"]] or "")[:1500], "model_alone": (model[c["line"]] or "")[:1500]}
            if c.get("must_fail"):
                rec["must_fail"] = True
                if pa is None or not pa.startswith("err"):
                    accepted.append(rec)
            if pa != fresh[c["line"]]:
                hist.append(rec)
            else:
                m = model[c["line"]]
                if pa is None or m is None or (pa != m and not (pa.startswith("err") and m.startswith("err"))):
                    mdis.append(rec)
    return {"documents": n, "sequences": len(seqs), "history_dependent": hist, "model_disagreements": mdis,
            "accepted_must_fail": accepted, "crashes": rcr + fcr, "kinds": kinds}


def replay_sequence(rp):
    """the sequence of a reuse replay file as cases"""
    return [raw_case(bytes.fromhex(x["wbxml"]) if x["wbxml"] != "-" else b"", "replay", int(x.get("forced", 0)), int(x.get("meta", 0)),
                     must_fail=x.get("must_fail")) for x in rp["sequence"]]
