"""A STRICT WBXML decoder written from the WBXML 1.3 specification (WAP-192-WBXML-20010725-a), used as the
C06/C07 oracle.  It shares nothing with the library's parser or with the Coq model: the only input besides the
bytes is the dump of the token tables (gen.tables_json()).

    start     = version publicid charset strtbl body        (WBXML 1.1 - 1.3)
    start     = version publicid strtbl body                (WBXML 1.0: no charset field)
    strtbl    = length *byte
    body      = *pi element *pi
    element   = ([switchPage] stag) [ 1*attribute END ] [ *content END ]
    content   = element | string | extension | entity | pi | opaque
    stag      = TAG | (literalTag index)
    attribute = attrStart *attrValue
    attrStart = ([switchPage] ATTRSTART) | (LITERAL index)
    attrValue = ([switchPage] ATTRVALUE) | string | extension | entity | opaque
    extension = [switchPage] ((EXT_I termstr) | (EXT_T index) | EXT)
    string    = inline | tableref ;  inline = STR_I termstr ;  tableref = STR_T index
    switchPage= SWITCH_PAGE pageindex ; entity = ENTITY entcode ; opaque = OPAQUE length *byte

Strictness beyond the grammar (every failure raises Strict with a reason):
  * integers are 1..5 octet mb_u_int32 without a redundant leading 0x80 octet and below 2^32;
  * the string table has exactly the declared length and, if not empty, ends with NUL;
  * every STR_T index, literal index and textual public id index is the first octet of a NUL terminated entry
    (index 0 or preceded by NUL);
  * every tag / attribute start / attribute value token exists in the language's table under the CURRENT code
    page of its code space (SWITCH_PAGE tracked separately for tags and attributes); a SWITCH_PAGE to the page
    that is already current, or not followed by a token of that code space, is refused;
  * attribute lists, elements and the document are terminated; nothing follows the root element;
  * strings are valid UTF-8 (the header must announce charset 106); PIs are refused (the encoder cannot
    produce them).
"""

SWITCH_PAGE, END, ENTITY, STR_I, LITERAL = 0x00, 0x01, 0x02, 0x03, 0x04
EXT_I = (0x40, 0x41, 0x42)
PI = 0x43
LITERAL_C = 0x44
EXT_T = (0x80, 0x81, 0x82)
STR_T = 0x83
LITERAL_A = 0x84
EXT = (0xC0, 0xC1, 0xC2)
OPAQUE = 0xC3
LITERAL_AC = 0xC4


class Strict(Exception):
    pass


class Tables:
    """per language lookup built from gen.tables_json()"""

    def __init__(self, tj, lang_id):
        self.lang = [l for l in tj["langs"] if l["id"] == lang_id][0]
        self.tj = tj

        def rows(k):
            i = self.lang[k]
            return tj["tables"][str(i)]["rows"] if i >= 0 else None
        self.tags, self.ns, self.attrs, self.vals, self.exts = rows("tags"), rows("ns"), rows("attrs"), rows("vals"), rows("exts")
        self.tag_by = {}
        for name, page, tok, opts in self.tags or []:
            self.tag_by.setdefault((page, tok), []).append((name, opts))
        self.attr_by = {}
        for name, val, page, tok in self.attrs or []:
            self.attr_by.setdefault((page, tok), []).append((name, val))
        self.val_by = {}
        for name, page, tok in self.vals or []:
            self.val_by.setdefault((page, tok), []).append(name)
        self.ext_by = {}
        for name, tok in self.exts or []:
            self.ext_by.setdefault(tok, []).append(name)
        self.ns_by = {}
        for name, page in self.ns or []:
            self.ns_by.setdefault(page, name)


class Reader:
    def __init__(self, data):
        self.d, self.p = data, 0

    def eof(self):
        return self.p >= len(self.d)

    def peek(self):
        if self.eof():
            raise Strict("unexpected end of document at %d" % self.p)
        return self.d[self.p]

    def byte(self):
        b = self.peek()
        self.p += 1
        return b

    def mb(self):
        v, n = 0, 0
        while True:
            b = self.byte()
            n += 1
            if n == 1 and b == 0x80:
                raise Strict("mb_u_int32 with a redundant leading octet at %d" % (self.p - 1))
            if n > 5:
                raise Strict("mb_u_int32 longer than 5 octets at %d" % self.p)
            v = (v << 7) | (b & 0x7F)
            if not b & 0x80:
                break
        if v >= 1 << 32:
            raise Strict("mb_u_int32 above 2^32")
        return v

    def take(self, n):
        if self.p + n > len(self.d):
            raise Strict("length %d runs past the end of the document at %d" % (n, self.p))
        s = self.d[self.p:self.p + n]
        self.p += n
        return s

    def termstr(self):
        e = self.d.find(b"\0", self.p)
        if e < 0:
            raise Strict("inline string not terminated at %d" % self.p)
        s = self.d[self.p:e]
        self.p = e + 1
        return s


def _utf8(b, what):
    try:
        return b.decode("utf-8")
    except UnicodeDecodeError:
        raise Strict("%s is not valid UTF-8: %r" % (what, b[:40]))


class Doc:
    """result of parse(): header fields + the root element in token form"""


def parse(data, tj, lang_id):
    """Strictly parse `data` as a WBXML document of language `lang_id`.  Returns a Doc."""
    T = Tables(tj, lang_id)
    r = Reader(data)
    doc = Doc()
    doc.tables = T
    doc.version = r.byte()
    if doc.version > 3:
        raise Strict("version byte %#x" % doc.version)
    if r.peek() == 0:
        r.byte()
        doc.pubid_num, doc.pubid_index = None, r.mb()
    else:
        doc.pubid_num, doc.pubid_index = r.mb(), None
    if doc.version == 0:
        # WBXML 1.0 (WAP-104 / WBXML 30-Apr-1998): start = version publicid strtbl body — the charset field was
        # introduced by WBXML 1.1
        doc.charset = None
    else:
        doc.charset = r.mb()
        if doc.charset != 106:
            raise Strict("charset %d is not UTF-8 (106)" % doc.charset)
    n = r.mb()
    doc.strtbl = r.take(n)
    if n and doc.strtbl[-1] != 0:
        raise Strict("string table (declared length %d) does not end with NUL" % n)
    doc.refs = []          # every index used

    def tblstr(idx, what):
        if idx >= len(doc.strtbl):
            raise Strict("%s index %d outside the string table of length %d" % (what, idx, len(doc.strtbl)))
        if idx and doc.strtbl[idx - 1] != 0:
            raise Strict("%s index %d points into the middle of a string table entry" % (what, idx))
        e = doc.strtbl.find(b"\0", idx)
        if e < 0:
            raise Strict("%s index %d: entry not terminated" % (what, idx))
        doc.refs.append(idx)
        return doc.strtbl[idx:e]

    doc.pubid_str = None
    if doc.pubid_index is not None:
        doc.pubid_str = _utf8(tblstr(doc.pubid_index, "public id"), "public id")

    state = {"tag": 0, "attr": 0}
    doc.switches = {"tag": 0, "attr": 0}

    def switch(space):
        """[switchPage]: at most one, must change the page"""
        if r.peek() == SWITCH_PAGE:
            r.byte()
            pg = r.byte()
            if pg == state[space]:
                raise Strict("SWITCH_PAGE to page %d which is already the current %s page (at %d)" % (pg, space, r.p - 2))
            state[space] = pg
            doc.switches[space] += 1
            if r.peek() == SWITCH_PAGE:
                raise Strict("two consecutive SWITCH_PAGE at %d" % r.p)
            return True
        return False

    def value_items(space_is_attr):
        """*attrValue or *content items that are not elements; returns one item or None"""

    def parse_string_like(b):
        if b == STR_I:
            return ("str", r.termstr())
        if b == STR_T:
            return ("str", tblstr(r.mb(), "STR_T"))
        if b == ENTITY:
            c = r.mb()
            if c > 0x10FFFF or 0xD800 <= c <= 0xDFFF:
                raise Strict("entity %#x is not a Unicode scalar value" % c)
            return ("str", chr(c).encode("utf-8"))
        if b == OPAQUE:
            n = r.mb()
            return ("opaque", r.take(n))
        if b in EXT_I:
            return ("ext_i", b & 3, r.termstr())
        if b in EXT_T:
            return ("ext_t", b & 3, r.mb())
        if b in EXT:
            return ("ext", b & 3)
        return None

    def parse_attrs():
        attrs = []
        while True:
            sw = switch("attr")
            b = r.byte()
            if b == END:
                if sw:
                    raise Strict("SWITCH_PAGE before END of an attribute list at %d" % r.p)
                if not attrs:
                    raise Strict("empty attribute list at %d" % r.p)
                return attrs
            if b == LITERAL:
                if sw:
                    raise Strict("SWITCH_PAGE before a LITERAL attribute at %d" % r.p)
                cur = {"lit": _utf8(tblstr(r.mb(), "attribute literal"), "literal name"), "items": []}
                attrs.append(cur)
                continue
            it = parse_string_like(b)
            if it is not None:
                if sw:
                    raise Strict("SWITCH_PAGE not followed by an attribute token at %d" % r.p)
                if not attrs:
                    raise Strict("attribute value before any attribute start at %d" % r.p)
                attrs[-1]["items"].append(it)
                continue
            if b in (PI, LITERAL_C, LITERAL_A, LITERAL_AC):
                raise Strict("token %#x not allowed in an attribute list at %d" % (b, r.p))
            key = (state["attr"], b)
            if b < 128:
                if key not in T.attr_by:
                    raise Strict("unknown attribute start token %#x on attribute page %d at %d" % (b, state["attr"], r.p - 1))
                attrs.append({"tok": key, "items": []})
            else:
                if key not in T.val_by:
                    raise Strict("unknown attribute value token %#x on attribute page %d at %d" % (b, state["attr"], r.p - 1))
                if not attrs:
                    raise Strict("attribute value token before any attribute start at %d" % r.p)
                attrs[-1]["items"].append(("valtok", key))

    def parse_element(depth):
        if depth > 2000:
            raise Strict("nesting deeper than 2000")
        sw = switch("tag")
        b = r.byte()
        elt = {"attrs": [], "content": []}
        if b in (LITERAL, LITERAL_C, LITERAL_A, LITERAL_AC):
            if sw:
                raise Strict("SWITCH_PAGE before a literal tag at %d" % r.p)
            elt["lit"] = _utf8(tblstr(r.mb(), "tag literal"), "literal name")
        else:
            ident = b & 0x3F
            if ident < 5:
                raise Strict("global token %#x where a tag is expected at %d" % (b, r.p - 1))
            key = (state["tag"], ident)
            if key not in T.tag_by:
                raise Strict("unknown tag token %#x on tag page %d at %d" % (ident, state["tag"], r.p - 1))
            elt["tok"] = key
        if b & 0x80:
            elt["attrs"] = parse_attrs()
        elt["has_content"] = bool(b & 0x40)
        if b & 0x40:
            while True:
                c = r.peek()
                if c == END:
                    r.byte()
                    break
                if c == PI:
                    raise Strict("PI at %d" % r.p)
                if c == SWITCH_PAGE or c in (LITERAL, LITERAL_C, LITERAL_A, LITERAL_AC):
                    elt["content"].append(("elt", parse_element(depth + 1)))
                    continue
                r.byte()
                it = parse_string_like(c)
                if it is not None:
                    elt["content"].append(it)
                    continue
                r.p -= 1
                elt["content"].append(("elt", parse_element(depth + 1)))
        return elt

    doc.root = parse_element(0)
    if not r.eof():
        raise Strict("%d octets after the end of the root element (first %#x)" % (len(data) - r.p, data[r.p]))
    # every entry boundary that is referenced is fine; report unreferenced table bytes for the record
    doc.final_pages = dict(state)
    return doc


# --------------------------------------------------------------------------------------------------
# denotation: token form -> infoset, with the typed values of the languages that have them
# --------------------------------------------------------------------------------------------------

def _hexdt(op):
    """SI / EMN %Datetime (SI 8.2.2): BCD octets, trailing zero octets omitted -> 14 digits"""
    s = op.hex()
    if len(s) > 14 or not s.isdigit():
        raise Strict("opaque %s is not a %%Datetime" % s)
    return s.ljust(14, "0")


def wv_datetime(op):
    if len(op) != 6:
        raise Strict("WV date-time opaque of %d octets" % len(op))
    v = int.from_bytes(op[:5], "big")
    sec = v & 63; v >>= 6
    mi = v & 63; v >>= 6
    ho = v & 31; v >>= 5
    da = v & 31; v >>= 5
    mo = v & 15; v >>= 4
    ye = v & 4095; v >>= 12
    if v:
        raise Strict("WV date-time reserved bits set")
    return (ye, mo, da, ho, mi, sec, op[5])


WV_INT = {0: (0x0B, 0x0F, 0x1A, 0x3C), 1: (0x1C, 0x25, 0x26, 0x27, 0x28, 0x32), 3: (0x05, 0x06, 0x0C, 0x0D, 0x0E, 0x12, 0x13),
          9: (0x08, 0x0A)}
WV_DT = {0: (0x11,), 6: (0x1A,)}


class Infoset:
    """element: (names:set, ns or None, attrs:[(names:set, value)], children:[Infoset | ('text', str) | typed])"""


def denote(doc, tj, lang_id, sub_lang=None):
    """Infoset of a parsed document.  Typed leaves are returned as tagged values:
       ('text', str) | ('int', n) | ('wvdt', tuple) | ('bin', bytes) | ('doc', infoset) ; attribute values as
       ('text', str) | ('dt', 14 digits) | ('bin', bytes)"""
    T = doc.tables
    lid = lang_id

    def attr_value(a, names_tok):
        parts = []
        typed = None
        for it in a["items"]:
            if it[0] == "str":
                parts.append(_utf8(it[1], "attribute string"))
            elif it[0] == "valtok":
                parts.append(T.val_by[it[1]][0])
            elif it[0] == "opaque":
                if typed is not None or parts:
                    raise Strict("opaque mixed with other attribute value parts")
                typed = it[1]
            else:
                raise Strict("extension token %r in an attribute value" % (it[0],))
        return parts, typed

    def elt(e, parent_key=None):
        if "tok" in e:
            names = set(n for n, _ in T.tag_by[e["tok"]])
            opts = T.tag_by[e["tok"]][0][1]
            ns = T.ns_by.get(e["tok"][0]) if T.ns else None
            key = e["tok"]
        else:
            names, opts, ns, key = {e["lit"]}, 0, None, None
        attrs = []
        for a in e["attrs"]:
            if "tok" in a:
                cands = T.attr_by[a["tok"]]
                parts, typed = attr_value(a, cands)
                name, pre = cands[0]
                if typed is not None:
                    if lid == 1301 and a["tok"] in ((0, 0x0A), (0, 0x10)) or lid == 1701 and a["tok"] == (0, 0x05):
                        attrs.append(({n for n, _ in cands}, ("dt", _hexdt(typed))))
                    elif lid == 1901 and a["tok"] == (0, 0x11):
                        attrs.append(({n for n, _ in cands}, ("bin", typed)))
                    else:
                        raise Strict("opaque attribute value under %s" % name)
                else:
                    attrs.append(({n for n, _ in cands}, ("text", (pre or "") + "".join(parts))))
            else:
                parts, typed = attr_value(a, None)
                if typed is not None:
                    raise Strict("opaque value of a literal attribute")
                attrs.append(({a["lit"]}, ("text", "".join(parts))))
        kids = []
        text = []

        def flush():
            if text:
                kids.append(("text", "".join(text)))
                del text[:]
        for it in e["content"]:
            if it[0] == "elt":
                flush()
                kids.append(elt(it[1], key))
            elif it[0] == "str":
                text.append(_utf8(it[1], "text"))
            elif it[0] == "opaque":
                op = it[1]
                if opts & 1:
                    flush(); kids.append(("bin", op))
                elif lid in (2301, 2302) and key and key[1] in WV_INT.get(key[0], ()):
                    if len(op) > 4 or (op and op[0] == 0):
                        raise Strict("WV integer opaque %s" % op.hex())
                    flush(); kids.append(("int", int.from_bytes(op, "big")))
                elif lid in (2301, 2302) and key and key[1] in WV_DT.get(key[0], ()):
                    flush(); kids.append(("wvdt", wv_datetime(op)))
                elif lid == 1801 and key == (0, 0x0C):
                    flush(); kids.append(("bin", op))
                elif lid in (2001, 2101, 2201) and op[:1] in (b"\x00", b"\x01", b"\x02", b"\x03") and sub_lang is not None and op[1:2] != b"":
                    # an embedded WBXML document (DevInf / DM DDF inside <Data>)
                    sl = sub_lang(op)
                    if sl is None:
                        text.append(_utf8(op, "opaque text"))
                    else:
                        sd = parse(op, tj, sl)
                        flush(); kids.append(("doc", sl, sd, denote(sd, tj, sl)))
                else:
                    # CDATA section carried as opaque: character data
                    text.append(_utf8(op, "opaque text"))
            elif it[0] == "ext_t" and it[1] == 0 and T.exts is not None:
                if it[2] not in T.ext_by:
                    raise Strict("unknown extension value %#x" % it[2])
                text.append(T.ext_by[it[2]][0])
            else:
                raise Strict("extension token %r in content" % (it,))
        flush()
        return {"names": names, "ns": ns, "attrs": attrs, "kids": kids, "has_content": e["has_content"], "binary": bool(opts & 1)}
    return elt(doc.root)
