"""Shared case generation for the whole-conversion properties (C01, C02, C07, C03): corpus, mutations,
pathological documents.  Everything random derives from common.Rng(seed, stream)."""
import glob
import os

from . import common

WML_HDR = bytes([3, 0x0a, 0x6a, 0])          # WBXML 1.3, WML 1.3 public id 0x0A, UTF-8, no string table
LANG_IDS = None


def corpus_xml():
    fs = sorted(glob.glob(os.path.join(common.REPO, "test", "tools", "**", "*.xml"), recursive=True))
    return [f for f in fs if os.path.basename(f) != "testsuite.xml"]


def mb(v):
    out = [v & 0x7F]
    v >>= 7
    while v:
        out.insert(0, 0x80 | (v & 0x7F))
        v >>= 7
    return bytes(out)


def corpus_wbxml(harness):
    """WBXML corpus = the project's XML test documents converted by the library itself (cached per tree)."""
    cache = os.path.join(os.path.dirname(harness), "corpus_wbxml.txt")
    if os.path.exists(cache):
        return [tuple(l.rstrip("\n").split(" ")) for l in open(cache)]
    xs = corpus_xml()
    lines = ["x2w run 3 0 1 0 1 %s" % open(f, "rb").read().hex() for f in xs]
    ans, crashes = common.run_lines(harness, lines)
    out = []
    for f, a in zip(xs, ans):
        if a and a.startswith("st=0 ") and " out=" in a:
            out.append((os.path.relpath(f, common.REPO), a.split(" out=")[1].split(" ")[0]))
    with open(cache + (".tmp%d" % os.getpid()), "w") as fh:
        for n, h in out:
            fh.write("%s %s\n" % (n, h))
    os.rename(cache + (".tmp%d" % os.getpid()), cache)
    return out


def deep_wml(n, close=True):
    return WML_HDR + bytes([0x60]) * n + (bytes([1]) * n if close else b"")


def wide_wml(n):
    return WML_HDR + bytes([0x7f, 0x67]) + bytes([0x20]) * n + bytes([1, 1])


def strtbl_blowup(k, m):
    """string table with one k-byte string, m references to it: decoded size ~ k*m from k+3m bytes"""
    tbl = b"A" * k + b"\0"
    body = bytes([0x7f, 0x67, 0x60]) + (bytes([0x83]) + mb(0)) * m + bytes([1, 1, 1])
    return bytes([3, 0x0a, 0x6a]) + mb(len(tbl)) + tbl + body


EMB_TYPE = b"application/vnd.syncml-devinf+wbxml"


def embedded_chain(k):
    """SyncML 1.1 <Item><Meta><Type>…devinf+wbxml</Type></Meta><Data>OPAQUE(doc(k-1))</Data></Item>: k levels of embedded documents"""
    d = b"x"
    for _ in range(k):
        d = (bytes([0x02, 0x9F, 0x53, 0x6A, 0x00, 0x54, 0x5A, 0x00, 0x01, 0x53, 0x03]) + EMB_TYPE +
             bytes([0x00, 0x01, 0x00, 0x00, 0x01, 0x4F, 0xC3]) + mb(len(d)) + d + bytes([0x01, 0x01]))
    return d


def embedded_bomb(levels, k):
    """a NUL-free embedded document kept in its parent's string table and referenced k times per level
    (the literal tag "Type" is the unterminated tail of the table): output multiplies by k at every embedding level
    unless embedding is bounded"""
    def ok(n):
        return 0 not in mb(n)
    d = b"\x02\x9f\x53\x6a\x01x\x14"
    for _ in range(levels):
        junk = b"x"
        while True:
            tbl = junk + d + b"Type"
            idx = len(junk) + len(d)
            if ok(len(tbl)) and ok(idx) and ok(len(junk)):
                break
            junk += b"x"
        body = bytes([0x54, 0x5A, 0x44]) + mb(idx) + bytes([0xC3, 0x23]) + EMB_TYPE + bytes([0x01, 0x01])
        body += (bytes([0x4F, 0x83]) + mb(len(junk)) + bytes([0x01])) * k + bytes([0x01])
        d = bytes([0x02, 0x9F, 0x53, 0x6A]) + mb(len(tbl)) + tbl + body
    return d


def mutate(rng, doc):
    b = bytearray(doc)
    r = rng.below(6)
    if r == 0 and b:
        return bytes(b[:rng.below(len(b))])                      # truncation
    if r == 1 and b:
        for _ in range(rng.range(1, 4)):
            b[rng.below(len(b))] = rng.below(256)                # byte flips
        return bytes(b)
    if r == 2 and b:
        i = rng.below(len(b))
        b[i:i + 1] = rng.choice([b"\xff\xff\xff\xff\x7f", b"\x88\x80\x80\x80\x00", b"\x81\x00", b"\xc3\xff\x7f", b"\x83\xff\xff\x7f"])
        return bytes(b)                                          # huge length / index field
    if r == 3 and b:
        i = rng.below(len(b)); j = min(len(b), i + rng.range(1, 20))
        return bytes(b[:i] + b[i:j] * rng.range(2, 5) + b[j:])   # duplication
    if r == 4 and b:
        i = rng.below(len(b))
        return bytes(b[:i] + bytes([rng.choice([0x00, 0x01, 0x02, 0x03, 0x04, 0x40, 0x43, 0x44, 0x83, 0x84, 0xc3, 0xc4])]) + b[i:])
    return bytes(b) + rng.bytes(rng.range(1, 8))


W2X_APIS = ["run", "withlen", "nolen", "noparams"]


def w2x_line(doc, api="run", lang=0, charset=0, gen=1, indent=0, keep=0, dump=0):
    return "w2x %s %d %d %d %d %d %d %s" % (api, lang, charset, gen, indent, keep, dump, doc.hex() if doc else "-")


def x2w_line(doc, api="run", version=3, keep=0, strtbl=1, anon=0, dump=0):
    return "x2w %s %d %d %d %d %d %s" % (api, version, keep, strtbl, anon, dump, doc.hex() if doc else "-")


def parse_answer(a):
    if a is None or not a.startswith("st="):
        return None
    d = {}
    for kv in a.split(" "):
        k, _, v = kv.partition("=")
        d[k] = v
    for k in ("st", "len", "null_out", "untouched_out", "nul", "peak", "allocs", "stack", "held", "leak"):
        d[k] = int(d[k])
    return d


# ---------------------------------------------------------------------------------------------
# XML side
# ---------------------------------------------------------------------------------------------
import re

WML_DOCTYPE = b'<?xml version="1.0"?><!DOCTYPE wml PUBLIC "-//WAPFORUM//DTD WML 1.3//EN" "http://www.wapforum.org/DTD/wml13.dtd">'
SYNCML_DOCTYPE = b'<?xml version="1.0"?><!DOCTYPE SyncML PUBLIC "-//SYNCML//DTD SyncML 1.2//EN" "http://www.openmobilealliance.org/tech/DTD/OMA-TS-SyncML_RepPro_DTD-V1_2.dtd">'


def deep_xml(n):
    return WML_DOCTYPE + b"<wml><card>" + b"<p>" * n + b"x" + b"</p>" * n + b"</card></wml>"


def wide_xml(n):
    return WML_DOCTYPE + b"<wml><card>" + b"<p/>" * n + b"</card></wml>"


def attrs_xml(n):
    return WML_DOCTYPE + b"<wml><card " + b" ".join(b'a%d="v%d"' % (i, i) for i in range(n)) + b"><p>x</p></card></wml>"


def entity_xml(levels, fan):
    """internal entities expanding geometrically (bounded): Expat expands them before the library sees text"""
    dtd = b'<!ENTITY e0 "abcdefghij">'
    for i in range(1, levels + 1):
        dtd += b'<!ENTITY e%d "%s">' % (i, (b"&e%d;" % (i - 1)) * fan)
    return b'<?xml version="1.0"?><!DOCTYPE wml PUBLIC "-//WAPFORUM//DTD WML 1.3//EN" "http://www.wapforum.org/DTD/wml13.dtd" [' + dtd + b']><wml><card><p>&e%d;</p></card></wml>' % levels


def devinf_xml(inner):
    return SYNCML_DOCTYPE + (b'<SyncML xmlns="SYNCML:SYNCML1.2"><SyncHdr><VerDTD>1.2</VerDTD></SyncHdr><SyncBody><Results><CmdID>1</CmdID>'
                            b'<Item><Data>' + inner + b'</Data></Item></Results></SyncBody></SyncML>')


def deep_embedded_xml(n):
    """one (empty) embedded DevInf sub-document per nesting level: exercises the depth bookkeeping around skipped nodes"""
    return SYNCML_DOCTYPE + (b'<SyncML xmlns="SYNCML:SYNCML1.2"><SyncBody><Results>' +
                             b'<Item><DevInf xmlns="syncml:devinf"></DevInf>' * n + b'</Item>' * n + b'</Results></SyncBody></SyncML>')


def xml_mutate(rng, doc):
    b = bytes(doc)
    r = rng.below(12)
    if r == 0 and b:
        return b[:rng.below(len(b))]
    if r == 1 and b:
        bb = bytearray(b)
        for _ in range(rng.range(1, 3)):
            bb[rng.below(len(bb))] = rng.choice([0x3c, 0x3e, 0x26, 0x22, 0x27, 0x00, 0xff, 0x20, 0x5d, rng.below(256)])
        return bytes(bb)
    spans = [m.span() for m in re.finditer(rb"<[A-Za-z][^<>]*?/>|<([A-Za-z][\w:.-]*)[^<>]*>[^<>]*</\1>", b)]
    if r == 2 and spans:
        s, e = rng.choice(spans)
        return b[:s] + b[s:e] * rng.range(2, 40) + b[e:]                      # repeat an element
    if r == 3 and spans:
        s, e = rng.choice(spans)
        return b[:s] + b[e:]                                                  # drop an element
    if r == 4 and spans:
        s, e = rng.choice(spans)
        ins = rng.choice([b"<zzz a='b'>t</zzz>", b"<![CDATA[x]]y]]>", b"<?pi data?>", b"<!-- c -->", b"&amp;&#x800;&#65;", b"  \n\t ",
                          b"<unknown:elt xmlns:unknown='urn:x'/>", b"]]>", b"<![CDATA[", b"&undefined;", b"\xe2\x82\xac\xf0\x9f\x98\x80"])
        return b[:e] + ins + b[e:]
    texts = [m.span(1) for m in re.finditer(rb">([^<>]+)<", b)]
    if r == 5 and texts:
        s, e = rng.choice(texts)
        rep = rng.choice([b"  " + b[s:e] + b"  ", b[s:e] * rng.range(2, 30), b"   ", b"", b"AAAA" * rng.range(1, 400), b"%%%=", b"a\r\nb\tc",
                          b"SGVsbG8=", b"====", b"20240101T000000Z", b"4294967296", b"-1", b"0x10"])
        return b[:s] + rep + b[e:]
    tags = [m.span() for m in re.finditer(rb"<[A-Za-z][\w:.-]*", b)]
    if r == 6 and tags:
        s, e = rng.choice(tags)
        return b[:e] + b" " + b" ".join(b'x%d="%s"' % (i, b"v" * rng.range(0, 9)) for i in range(rng.range(1, 300))) + b[e:]
    if r == 7 and tags:
        s, e = rng.choice(tags)
        return b[:e] + rng.choice([b"x", b":y", b"-z"]) + b[e:]                # unknown name (end tag no longer matches: ill-formed)
    if r == 8:
        return re.sub(rb"<!DOCTYPE[^>]*>", rng.choice([b"", b"<!DOCTYPE x>", b'<!DOCTYPE x PUBLIC "-//NOBODY//DTD None//EN" "none.dtd">']), b, count=1)
    if r == 9:
        try:
            t = b.decode("utf-8")
            enc = rng.choice(["utf-16", "utf-16-le", "utf-16-be", "latin-1"])
            t = re.sub(r'^<\?xml[^>]*\?>', '<?xml version="1.0" encoding="%s"?>' % ("ISO-8859-1" if enc == "latin-1" else "UTF-16"), t)
            return t.encode(enc, "replace")
        except Exception:
            return b
    if r == 10 and spans:
        s, e = rng.choice(spans)
        k = rng.range(1, 60)
        return b[:s] + b"<p>" * k + b[s:e] + b"</p>" * k + b[e:]              # wrap deeper (may be invalid for the DTD: not checked by the library)
    return b + rng.choice([b"<x/>", b"\n\n", b"\x00", b"<!-- -->"])


def _rows(tables, idx):
    """rows of table number idx of the tables dump (-1 / None: no such table)"""
    if idx is None or idx < 0:
        return []
    return tables["tables"].get(str(idx), {}).get("rows", [])


def typed_payload_docs(rng, tables, typed, per_elem=10):
    """WBXML documents that put arbitrary OPAQUE / inline payloads into every element and attribute the library decodes in a
    typed way (WV integers and date-times, SI/EMN date attributes, base64 / MIME content), from the behavioural probe of the
    current tree (vlib/gen_hardwired.probe()['dec']).  Payload shapes aim at the decoders' field boundaries: lengths 0..9,
    all bits set (reserved bits too), all zero, BCD digits / non-digits, and random bytes.  Returns (bytes, forced lang)."""
    langs = {l["id"]: l for l in tables["langs"]}
    out = []
    def payloads():
        ps = [b"", b"\xff" * 6, b"\x00" * 6, b"\xff" * 4, b"\xff" * 5, b"\x7f\xff\xff\xff\xff\xff", b"\xbf\xff\xff\xff\xff\x5a",
              bytes([0x20, 0x01, 0x09, 0x25, 0x13, 0x40, 0x45]), bytes([0x9a, 0xbc, 0xde, 0xf0]), b"\xff" * 9, b"\x01" * 1]
        while len(ps) < per_elem + 6:
            ps.append(rng.bytes(rng.range(1, 10)))
        return ps
    for e in typed:
        l = langs.get(e["lang"])
        if l is None:
            continue
        pub = l.get("pub_num") or 0
        hdr = bytes([3]) + (mb(pub) if pub and pub != 1 else b"\x01") + b"\x6a\x00"
        forced = 0 if (pub and pub != 1) else e["lang"]
        sw = (b"\x00" + bytes([e["page"]])) if e["page"] else b""
        for pl in payloads():
            opq = b"\xc3" + mb(len(pl)) + pl
            if e["where"] in ("content", "contentany"):
                body = sw + bytes([0x40 | e["tok"]]) + opq + b"\x01"
                out.append((hdr + body, forced))
                # the same payload as an inline string (no NUL inside) and after another content item
                if pl and 0 not in pl:
                    out.append((hdr + sw + bytes([0x40 | e["tok"]]) + b"\x03" + pl + b"\x00\x01", forced))
                out.append((hdr + sw + bytes([0x40 | e["tok"]]) + b"\x03a\x00" + opq + b"\x01", forced))
            else:
                # typed attribute: any element of page 0 with attributes, attribute start = the probed token
                trows = _rows(tables, l.get("tags"))
                tag = next((t for t in trows if t[1] == 0), None)
                tt = tag[2] if tag else 5
                body = bytes([0x80 | tt]) + sw + bytes([e["tok"]]) + opq + b"\x01"
                out.append((hdr + body, forced))
                out.append((hdr + bytes([0xc0 | tt]) + sw + bytes([e["tok"]]) + b"\x03x\x00" + opq + b"\x01\x01", forced))
    return out


def attr_extension_docs(tables):
    """attribute lists and PIs whose value items include valueless / reserved tokens after an ordinary value: EXT_0..2,
    EXT_I/EXT_T forms, ENTITY, STR_T with no table, LITERAL — for every language (forced), WML by its public id too."""
    out = []
    items = [b"\xc0", b"\xc1", b"\xc2", b"\x40a\x00", b"\x41a\x00", b"\x42a\x00", b"\x80\x00", b"\x81\x00", b"\x82\x05",
             b"\x02\x41", b"\x83\x00", b"\xc3\x01a", b"\x04\x00"]
    for l in tables["langs"]:
        tags = [t for t in _rows(tables, l.get("tags")) if t[1] == 0]
        attrs = [a for a in _rows(tables, l.get("attrs")) if a[2] == 0]
        tt = tags[0][2] if tags else 5
        at = attrs[0][3] if attrs else 5
        pub = l.get("pub_num") or 0
        hdr = bytes([3]) + (mb(pub) if pub and pub != 1 else b"\x01") + b"\x6a\x00"
        forced = 0 if (pub and pub != 1) else l["id"]
        for it in items:
            for pre in (b"", b"\x03a\x00", b"\x03a\x00\x03b\x00"):
                out.append((hdr + bytes([0x80 | tt, at]) + pre + it + b"\x01", forced))                     # <t a="pre it"/>
                out.append((hdr + bytes([0x40 | tt]) + b"\x43" + bytes([at]) + pre + it + b"\x01\x01", forced))   # <t><?a pre it?></t>
    return out
