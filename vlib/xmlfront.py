"""XML front end (wbxml_tree_clb_xml.c + the XML half of wbxml_tree.c): correspondence of coq/Model/XmlFront.v with the C.

    correspond(seed, quick) -> dict(evaluations, disagreements, samples, distribution, ...)
    correspond_conv(seed, quick) -> dict(evaluations, disagreements, samples, ...)   whole conversion (see below)
    correspond_replay(seed, quick) -> dict(...)   the callbacks driven directly with arbitrary event lists (see below)
    python3 -m vlib.xmlfront [--conv | --replay | --inverse] [--thorough] [--seed N] [--strict-codes] [--hex DOC]
                                                          prints the disagreements, exits non-zero if there is any
                                                          (--strict-codes: an error-code-only difference counts too;
                                                           used for mutation analysis, 0 on the unchanged tree)

Per document the harness (harness/xmlfront_harness.c) logs the events of a fresh Expat parser configured as
wbxml_tree_from_xml configures it, then calls the real wbxml_tree_from_xml and dumps the tree (or the error code); the
driver (driver/XmlFront_driver.ml, extracted model) replays the events.  The nested parse of an embedded DevInf / DM DDF
document is a parameter of the model: when the model asks for a document the runner obtains the C's answer for exactly
those bytes from the harness, hands it to the model, and ALSO corresponds that nested document on its own (so the
embedded documents are model-checked one level at a time, down to the innermost).

Model and C must agree on tree-or-error; a difference in the error CODE only is soft.  A sanitizer report / crash of
the harness is reported as a disagreement of kind 'crash'."""
import base64
import hashlib
import os
import re
import sys

from . import common, convcases

MAX_ROUNDS = 6


# ----------------------------------------------------------------------------------------------
# documents
# ----------------------------------------------------------------------------------------------

def doctype_of(lang, root=None):
    root = root or lang["root"]
    if lang["pub_text"]:
        return '<!DOCTYPE %s PUBLIC "%s" "%s">' % (root, lang["pub_text"], lang["dtd"] or "x.dtd")
    return '<!DOCTYPE %s SYSTEM "%s">' % (root, lang["dtd"])


SYNCML = {
    "1.0": b'<!DOCTYPE SyncML PUBLIC "-//SYNCML//DTD SyncML 1.0//EN" "http://www.syncml.org/docs/syncml_represent_v10_20001207.dtd">',
    "1.1": b'<!DOCTYPE SyncML PUBLIC "-//SYNCML//DTD SyncML 1.1//EN" "http://www.syncml.org/docs/syncml_represent_v11_20020213.dtd">',
    "1.2": b'<!DOCTYPE SyncML PUBLIC "-//SYNCML//DTD SyncML 1.2//EN" "http://www.openmobilealliance.org/tech/DTD/OMA-TS-SyncML_RepPro_DTD-V1_2.dtd">',
}
SYNCML_NS = {"1.0": b"SYNCML:SYNCML1.0", "1.1": b"SYNCML:SYNCML1.1", "1.2": b"SYNCML:SYNCML1.2"}
ACTIVESYNC = b'<!DOCTYPE ActiveSync PUBLIC "-//MICROSOFT//DTD ActiveSync//EN" "http://www.microsoft.com/">'
AIRSYNC = b'<!DOCTYPE AirSync PUBLIC "-//AIRSYNC//DTD AirSync//EN" "http://www.microsoft.com/">'

DEVINF_BODY = (b'<VerDTD>1.2</VerDTD><Man>ACME</Man><Mod>X &amp; Y</Mod><DevID>id-1</DevID><DevTyp>phone</DevTyp>'
               b'<DataStore><SourceRef>./contacts</SourceRef><Rx-Pref><CTType>text/x-vcard</CTType><VerCT>2.1</VerCT></Rx-Pref>'
               b'<SyncCap><SyncType>1</SyncType><SyncType>2</SyncType></SyncCap></DataStore>')
DDF_BODY = (b'<VerDTD>1.2</VerDTD><Node><NodeName>Vendor</NodeName><DFProperties><AccessType><Get/></AccessType>'
            b'<DFFormat><node/></DFFormat></DFProperties><Node><NodeName>Leaf</NodeName><Value>v</Value></Node></Node>')

DATA_TYPES = [b"text/x-vcard", b"text/x-vcalendar", b"text/directory;profile=vCard", b"text/clear", b"text/plain",
              b"application/vnd.syncml-devinf+xml", b"application/vnd.syncml-devinf+wbxml", b"application/vnd.syncml.dmtnds+xml",
              b"application/vnd.syncml.dmtnds+wbxml", b"text/X-VCARD", b"", b" text/x-vcard"]
VCARD = b"BEGIN:VCARD\nVERSION:2.1\nN:Doe;John\nTEL;WORK:+1 (617) 236-0442\nEND:VCARD\n"
DATA_CONTENTS = [VCARD, VCARD.replace(b"\n", b"\r\n"), b"\n", b"\n\n", b"x", b"<![CDATA[" + VCARD + b"]]>", b"<![CDATA[" + VCARD + b"]]>\n   ",
                 b"  <![CDATA[a]]>b<![CDATA[c]]>", b"a &lt; b &amp; c", b"pre<Ext>1</Ext>post", b"<Ext/>tail\n", b"", b"<?pi x?>text", b"<!-- c -->t\nu",
                 b"line1\nline2", b"&#10;", b"a&#10;b", b"<Data>inner</Data>", b"<Item><Data>deep\n</Data></Item>"]


def syncml_doc(ver, body, decl=b'<?xml version="1.0"?>', ns=True):
    return decl + SYNCML[ver] + b'<SyncML' + (b' xmlns="' + SYNCML_NS[ver] + b'"' if ns else b"") + b'><SyncHdr><VerDTD>' + ver.encode() + \
        b'</VerDTD></SyncHdr><SyncBody>' + body + b'</SyncBody></SyncML>'


LF_PROBE = (b'<?xml version="1.0"?><SyncML><SyncBody><Add><CmdID>1</CmdID><Meta><Type xmlns="syncml:metinf">text/x-vcard</Type></Meta>'
            b'<Item><Data>A&#13;&#10;</Data></Item></Add></SyncBody></SyncML>')


def lf_hack_before_fix(HT):
    """which characters callback the C under test has: True = before props/C02/LF-hack-fix.patch (a lone LF event gets a
    CR even when the CR came just before: "A&#13;&#10;" gives A CR CR LF), False = fixed.  The model has both
    (Model/XmlFront.v / Model/XmlFrontLfOld.v); the drivers take the old one on lines that start with LFOLD."""
    a, _ = common.run_lines(HT, [LF_PROBE.hex()], shards=1)
    p = split_answer(a[0])
    if p is None or "410d" not in p[2]:
        raise RuntimeError("LF-hack probe: unexpected answer %r" % (a[0],))
    return "410d0d0a" in p[2]


CRLF_CONTENTS = [b"BEGIN:VCARD&#13;&#10;N:a&#13;&#10;END:VCARD&#13;&#10;", b"&#13;&#10;", b"a&#13;&#10;b", b"a&#13;\nb", b"&#13;", b"&#10;&#13;&#10;",
                 b"<![CDATA[x]]>&#13;&#10;tail&#13;&#10;", b"a&#13;&#13;&#10;", b"a\n&#13;&#10;", b"a&#13;<x/>&#10;", b"<![CDATA[a\r]]>&#10;"]


def crlf_docs():
    """source documents that write the CR of a line end (&#13;&#10;: Expat delivers CR and LF as separate events) in
    vCard / vCalendar / text/clear / untyped <Data> — the LF-hack defect and its fix"""
    out = []
    for ty in (b"text/x-vcard", b"text/x-vcalendar", b"text/directory;profile=vCard", b"text/clear", b"text/plain", None):
        for cmd in (b"Add", b"Replace", b"Results"):
            for content in CRLF_CONTENTS:
                meta = (b"<Meta><Type xmlns='syncml:metinf'>" + ty + b"</Type></Meta>") if ty is not None else b""
                body = b"<%s><CmdID>1</CmdID>%s<Item><Data>%s</Data></Item></%s>" % (cmd, meta, content, cmd)
                out.append(("crlf", syncml_doc("1.2" if cmd != b"Results" else "1.1", body)))
    return out


def syncml_data_docs(rng, quick):
    out = []
    cmds = [b"Add", b"Replace", b"Results", b"Put", b"Alert"]
    for ty in DATA_TYPES:
        for k, content in enumerate(DATA_CONTENTS):
            if quick and (k + len(ty)) % 3 and rng.chance(2, 3):
                continue
            ver = rng.choice(["1.0", "1.1", "1.2"])
            cmd = rng.choice(cmds)
            meta = b"<Meta><Type xmlns='syncml:metinf'>" + ty + b"</Type></Meta>"
            form = rng.below(6)
            data = b"<Data>" + content + b"</Data>"
            if form == 0:        # Meta at command level (grandparent's children)
                body = b"<%s><CmdID>1</CmdID>%s<Item>%s</Item></%s>" % (cmd, meta, data, cmd)
            elif form == 1:      # Meta inside Item (parent's children), before Data
                body = b"<%s><CmdID>1</CmdID><Item>%s%s</Item></%s>" % (cmd, meta, data, cmd)
            elif form == 2:      # Meta after Data: not seen yet when the text arrives
                body = b"<%s><CmdID>1</CmdID><Item>%s%s</Item></%s>" % (cmd, data, meta, cmd)
            elif form == 3:      # no Meta: only the Add/Replace hack applies
                body = b"<%s><CmdID>1</CmdID><Item>%s</Item></%s>" % (cmd, data, cmd)
            elif form == 4:      # Meta without Type / Type without text / Type with element first
                m2 = rng.choice([b"<Meta/>", b"<Meta><Type/></Meta>", b"<Meta><Type><x/>" + ty + b"</Type></Meta>", b"<Meta><Format>b64</Format></Meta>" + meta,
                                 b"<Meta><Format>b64</Format><Type>" + ty + b"</Type></Meta>"])
                body = b"<%s><CmdID>1</CmdID>%s<Item>%s</Item></%s>" % (cmd, m2, data, cmd)
            else:                # Data directly in a parent called Meta; two Metas; indentation between elements
                body = b"<%s>\n <Meta>%s</Meta>\n <Meta><Type>%s</Type></Meta>\n <Item>\n  %s\n </Item>\n</%s>" % (cmd, data, ty, data, cmd)
            out.append(("syncml-data", syncml_doc(ver, body, ns=rng.chance(3, 4))))
    # <Data> as the root / directly under the root
    out.append(("syncml-data", b'<?xml version="1.0"?>' + SYNCML["1.2"] + b"<Data>text\n</Data>"))
    out.append(("syncml-data", b'<?xml version="1.0"?>' + SYNCML["1.2"] + b"<Add><Data>text\n</Data></Add>"))
    out.append(("syncml-data", b'<?xml version="1.0"?>' + SYNCML["1.2"] + b"<Add><Item><Data>text\n</Data></Item></Add>"))
    out.append(("syncml-data", b'<?xml version="1.0"?>' + SYNCML["1.2"] + b"<Replace><Item><Data><![CDATA[a]]><![CDATA[b]]>\nc<x>\n</x>\n</Data></Item></Replace>"))
    return out


def embedded_docs(rng, quick):
    out = []
    devinf = lambda body=DEVINF_BODY, ns=b"syncml:devinf", tag=b"DevInf", attrs=b"": b"<%s xmlns='%s'%s>%s</%s>" % (tag, ns, attrs, body, tag)
    ddf = lambda body=DDF_BODY: b"<MgmtTree xmlns='syncml:dmddf1.2'>" + body + b"</MgmtTree>"
    wrap = lambda inner, ty=b"application/vnd.syncml-devinf+xml": (b"<Results><CmdID>1</CmdID><Meta><Type xmlns='syncml:metinf'>" + ty +
                                                                   b"</Type></Meta><Item><Source><LocURI>./devinf12</LocURI></Source><Data>" + inner + b"</Data></Item></Results>")
    inners = [devinf(), devinf(b""), b"<DevInf xmlns='syncml:devinf'/>", devinf(b"<VerDTD>1.1</VerDTD><Unknown>u</Unknown>"),
              devinf(DEVINF_BODY + b"<DevInf>nested same name, other namespace</DevInf>"),
              devinf(DEVINF_BODY + devinf()),                                   # nested embedded document inside the embedded document
              devinf(b"<a><b><c/></b></a><![CDATA[x]]><?pi y?>text&amp;<a/>"),
              devinf(b"<VerDTD>1.2</VerDTD><Man>unclosed"),                         # ill-formed inside (outer document ill-formed as well)
              b"<d:DevInf xmlns:d='syncml:devinf'><d:VerDTD>1.2</d:VerDTD></d:DevInf>",   # prefixed: the appended end tag does not match
              devinf(ns=b"syncml:devinf2"), devinf(tag=b"Devinf"), devinf(attrs=b" a='1' b='2'"),
              b" \n " + devinf() + b" \n ", b"text" + devinf() + b"text", devinf() + devinf(), devinf() + b"<x/>" + devinf(b"<VerDTD>1.0</VerDTD>"),
              ddf(), ddf(b""), b"<MgmtTree xmlns='syncml:dmddf1.2'/>", ddf(DDF_BODY + ddf()), ddf(DDF_BODY + devinf()), devinf(DEVINF_BODY + ddf()),
              ddf() + devinf(), b"<![CDATA[" + devinf() + b"]]>", devinf(b"<Ext><XNam>\xc3\xa9\xe2\x82\xac</XNam></Ext>"),
              devinf(b"<DataStore>" + b"<CTCap><CTType>t</CTType></CTCap>" * 40 + b"</DataStore>")]
    for ver in ("1.0", "1.1", "1.2"):
        for k, inner in enumerate(inners):
            if quick and ver != "1.2" and k % 3 != (0 if ver == "1.0" else 1):
                continue
            out.append(("embedded", syncml_doc(ver, wrap(inner), ns=rng.chance(3, 4))))
            if k % 5 == 0:
                out.append(("embedded", syncml_doc(ver, wrap(inner, b"text/x-vcard"))))
    # embedded document names directly under the root, as the root, in other languages, in binary-flagged parents
    out.append(("embedded", b'<?xml version="1.0"?>' + SYNCML["1.2"] + b"<SyncML>" + devinf() + b"</SyncML>"))
    out.append(("embedded", b'<?xml version="1.0"?>' + devinf()))
    out.append(("embedded", b'<?xml version="1.0"?>' + ddf()))
    out.append(("embedded", b'<?xml version="1.0"?><!DOCTYPE wml PUBLIC "-//WAPFORUM//DTD WML 1.3//EN" "http://www.wapforum.org/DTD/wml13.dtd"><wml><card>' + devinf() + b"</card></wml>"))
    out.append(("embedded", b'<?xml version="1.0"?>' + ACTIVESYNC + b"<Sync xmlns='AirSync:'><ConversationId xmlns='Email2:'>YWJj" + devinf(b"<a></a>") + b"ZGVm</ConversationId></Sync>"))
    out.append(("embedded", b'<?xml version="1.0"?>' + ACTIVESYNC + b"<Sync xmlns='AirSync:'><ConversationId xmlns='Email2:'>!!" + devinf(b"<a></a>") + b"</ConversationId></Sync>"))
    for n in ([1, 2, 5] if quick else [1, 2, 3, 5, 40, 998, 999, 1000, 1001]):
        out.append(("embedded-deep", convcases.deep_embedded_xml(n)))
    # embedded document delivered through an internal entity: both byte indexes are the position of the reference
    edt = SYNCML["1.2"][:-1] + b" [<!ENTITY e \"<DevInf xmlns='syncml:devinf'><Man>m</Man></DevInf>\"><!ENTITY f \"<Man>m</Man></DevInf>\">]>"
    for inner in (b"&e;", b"x&e;y&e;", b"<DevInf xmlns='syncml:devinf'>&f;"):
        out.append(("embedded", b'<?xml version="1.0"?>' + edt + b"<SyncML><SyncBody><Results><Item><Data>" + inner + b"</Data></Item></Results></SyncBody></SyncML>"))
    # skip-level counting: same-named and differently named elements inside the skipped range
    for n in (1, 3, 17):
        out.append(("embedded", syncml_doc("1.2", wrap(devinf(b"<Ext>" * n + b"<DevInf/>" * n + b"</Ext>" * n)))))
    return out


def binary_docs(rng, quick):
    out = []
    b64 = lambda b: base64.b64encode(b)
    payloads = [b64(b"abc"), b64(b"ab"), b64(b"a"), b64(b"binary\x00data\xff\xfe"), b64(bytes(range(256))), b"", b" ", b"\n  \n", b"!", b"!!!!", b"====", b"A", b"AB", b"ABC",
                b"ABCD", b"ABCDE", b"YWJj!!!!", b"YW Jj\nZG Vm", b"YWJj=ZGVm", b"\xc3\xa9YWJj", b"YWJj&amp;ZGVm", b"YWJj&#65;&#66;", b"YW<x/>Jj", b"YWJj<!-- c -->ZGVm",
                b"<![CDATA[YWJj]]>", b"YWJj<![CDATA[ZGVm]]>", b"<x>YWJj</x>", b"YWJj<x>ZGVm</x>Z2hp", b"<?pi p?>YWJj", b64(b"z" * (300 if quick else 30000)),
                b"\n".join(b64(b"line %d of the body" % i) for i in range(20)), b"<ConversationId>YWJj</ConversationId>YWJj"]
    tags = [(b"Email2:", b"ConversationId"), (b"Email2:", b"ConversationIndex"), (b"AirSyncBase:", b"Data"), (b"ItemOperations:", b"Data"), (b"ComposeMail:", b"MIME"),
            (b"Email:", b"ConversationId"), (b"RightsManagement:", b"Content"), (b"Email:", b"MIME"), (b"AirSync:", b"Data"), (b"Unknown:", b"ConversationId")]
    for k, p in enumerate(payloads):
        for j, (ns, tag) in enumerate(tags):
            if quick and (k + j) % 4:
                continue
            dt = [ACTIVESYNC, AIRSYNC, b""][(k + j) % 3 if not quick else (k // 4) % 3]
            wrapper = rng.choice([b"Add", b"Change", b"ApplicationData", b"Fetch", b"Replace"])
            out.append(("binary", b'<?xml version="1.0"?>' + dt + b"<Sync xmlns='AirSync:'><Commands><%s><Item><%s xmlns='%s'>%s</%s></Item><ServerId>1</ServerId></%s></Commands></Sync>"
                        % (wrapper, tag, ns, p, tag, wrapper)))
    # mixed content of a binary-flagged element: every run of base64 text is decoded on its own, in front of the child that
    # follows it (/repo c0648d3: the flush also runs when a child element starts)
    for mixed in (b"Zg==<SmartReply/>b28=", b"Zg==<SmartReply/>", b"<SmartReply/>b28=", b"Zm9v<SmartReply>YmFy</SmartReply>YmF6", b"!!<SmartReply/>b28=", b"Zg==<SmartReply/>!!",
                  b"Zg==<a/><b/>b28=<c/>", b" <SmartReply/> ", b"Zg==<MIME>b28=</MIME>Zg==", b"Zg==<![CDATA[x]]><SmartReply/>b28="):
        out.append(("binary", b'<?xml version="1.0"?>' + ACTIVESYNC + b"<SmartForward xmlns='ComposeMail:'><MIME>" + mixed + b"</MIME></SmartForward>"))
    # a binary element at the nesting limit: its child is refused, the cached text is still decoded at the child's end tag
    for payload in (b"YWJj", b"!!!!"):
        for depth in (997, 998, 999):
            out.append(("binary-deep", b'<?xml version="1.0"?>' + ACTIVESYNC + b"<Sync xmlns='AirSync:'>" + b"<Add>" * depth + b"<ConversationId xmlns='Email2:'>" + payload +
                        b"<x>t</x>more</ConversationId>" + b"</Add>" * depth + b"</Sync>"))
    # an error (nesting limit) while `current` is an element below a binary element with cached text; a CDATA section
    # follows: if the CDATA callbacks did not return at once after the error, `current` would move up to the binary
    # element and the next end tag would decode its cache (only the error CODE can show this)
    for payload in (b"YWJj", b"!!!!"):
        out.append(("binary-deep", b'<?xml version="1.0"?>' + ACTIVESYNC + b"<Sync xmlns='AirSync:'>" + b"<Add>" * 997 + b"<ConversationId xmlns='Email2:'>" + payload +
                    b"<e><y>t</y><![CDATA[z]]>u</e>more</ConversationId>" + b"</Add>" * 997 + b"</Sync>"))
    return out


def deep_docs(rng, quick):
    out = []
    for n in ([995, 996, 997, 998, 999, 1000, 1003] if quick else list(range(990, 1010)) + [1500, 5000]):
        out.append(("deep", convcases.deep_xml(n)))
    W = convcases.WML_DOCTYPE
    for n in (996, 997, 998, 999, 1000):
        # CDATA sections, processing instructions and text at the limit (no depth check for those)
        out.append(("deep", W + b"<wml>" + b"<p>" * n + b"<![CDATA[x]]>t<?pi?>" + b"</p>" * n + b"</wml>"))
        out.append(("deep", W + b"<wml>" + b"<p>" * n + b"<![CDATA[x]]><q/>" + b"</p>" * n + b"</wml>"))
        # a SyncML <Data> at the limit: the added CDATA node is one level deeper, elements inside it are refused
        out.append(("deep", b'<?xml version="1.0"?>' + SYNCML["1.2"] + b"<SyncML>" + b"<Add>" * (n - 2) + b"<Item><Data>text<![CDATA[c]]><x/></Data></Item>" + b"</Add>" * (n - 2) + b"</SyncML>"))
    # nesting at the limit AFTER skipped embedded documents (a depth that is cached instead of recomputed drifts here)
    emb = b"<Results><Item><Data><DevInf xmlns='syncml:devinf'><Man>m</Man></DevInf></Data></Item></Results>"
    for k in (1, 2):
        for n in (997, 998, 999, 1000):
            out.append(("deep-after-embedded", b'<?xml version="1.0"?>' + SYNCML["1.2"] + b"<SyncML><SyncBody>" + emb * k + b"<Add>" * n + b"</Add>" * n + b"</SyncBody></SyncML>"))
    out.append(("wide", convcases.wide_xml(200 if quick else 20000)))
    out.append(("wide", convcases.attrs_xml(50 if quick else 3000)))
    out.append(("wide", W + b"<wml><card><p>" + b"a&amp;b&lt;&#x800;\n" * (50 if quick else 5000) + b"</p></card></wml>"))
    out.append(("entities", convcases.entity_xml(3, 4)))
    return out


DECLS = [b"", b'<?xml version="1.0"?>', b'<?xml version="1.0" encoding="UTF-8"?>', b'<?xml version="1.0" encoding="utf-8" standalone="yes"?>',
         b'<?xml version="1.0" encoding="US-ASCII"?>', b'<?xml version="1.0" encoding="ISO-8859-1"?>', b'<?xml version="1.0" encoding="iso-8859-1"?>',
         b'<?xml version="1.1"?>', b'<?xml version="1.0" encoding="ISO-8859-2"?>', b'<?xml version="1.0" encoding="Shift_JIS"?>', b'<?xml version="1.0" encoding="x-unknown"?>',
         b'<?xml version="1.0" encoding="UTF-16"?>']


def prolog_docs(tj, rng, quick):
    """language determination: DOCTYPE public id / system id / neither, root element with and without namespace"""
    out = []
    for lang in tj["langs"]:
        root = lang["root"]
        if not root:
            continue
        nsrows = tj["tables"][str(lang["ns"])]["rows"] if lang["ns"] >= 0 else []
        ns0 = nsrows[0][0] if nsrows else None
        trs = tj["tables"][str(lang["tags"])]["rows"] if lang["tags"] >= 0 else []
        kid = trs[1][0] if len(trs) > 1 else "x"
        if not re.fullmatch(r"[A-Za-z_][\w.-]*", kid):
            kid = "x"
        body = lambda r, ns=None, pfx="": "<%s%s%s>text<%s%s a='1'/></%s%s>" % (pfx, r, (" xmlns%s='%s'" % (":" + pfx[:-1] if pfx else "", ns)) if ns is not None else "", pfx, kid, pfx, r)
        pub, dtd = lang["pub_text"], lang["dtd"]
        forms = []
        if pub:
            forms.append('<!DOCTYPE %s PUBLIC "%s" "%s">' % (root, pub, dtd or "x"))
            forms.append('<!DOCTYPE %s PUBLIC "%s" "nothing.dtd">' % (root, pub.lower()))            # public id compared without case
            forms.append('<!DOCTYPE zz PUBLIC "%s" "nothing.dtd">' % pub)
        if dtd:
            forms.append('<!DOCTYPE %s SYSTEM "%s">' % (root, dtd))
            forms.append('<!DOCTYPE %s SYSTEM "%s">' % (root, dtd.upper()))                           # system id compared with case
            forms.append('<!DOCTYPE %s PUBLIC "-//NOBODY//DTD None//EN" "%s">' % (root, dtd))
        forms += ["", "<!DOCTYPE %s>" % root, '<!DOCTYPE %s PUBLIC "-//NOBODY//DTD None//EN" "none.dtd">' % root, '<!DOCTYPE %s [<!ENTITY e "v">]>' % root]
        for k, f in enumerate(forms):
            if quick and k % 2 and rng.chance(1, 2):
                continue
            decl = rng.choice(DECLS[:11]).decode()
            if ":" in root:                      # o-ex:rights
                pfx, local = root.split(":")
                docs = ["<%s:%s xmlns:%s='%s'>t</%s:%s>" % (pfx, local, pfx, ns0 or "urn:x", pfx, local), "<%s>t</%s>" % (local, local)]
            else:
                docs = [body(root), body(root, ns0) if ns0 else body(root, "urn:unknown"), body(root, "urn:unknown"),
                        body(root, ns0 or "urn:q", "p:"), body(root + "x"), body("zz" + root), body(root.upper() if root.upper() != root else root.lower())]
            for d in (docs if not quick else [docs[k % len(docs)], docs[(k + 3) % len(docs)]]):
                out.append(("prolog", (decl + f + d).encode("utf-8")))
    for d in DECLS:
        out.append(("prolog", d + convcases.WML_DOCTYPE[21:] + b"<wml><card><p>x</p></card></wml>"))
    out.append(("prolog", b"<unknownroot/>"))
    # text after the language error: a characters callback that went on would make a text node the root and fail on the next one
    out.append(("prolog", b"<unknownroot>a&amp;b<![CDATA[c]]>d</unknownroot>"))
    out.append(("prolog", b"<a:b xmlns:a='urn:none'/>"))
    out.append(("prolog", b"<wml/>"))
    out.append(("prolog", b"<?pi before?><!-- c --><wml><?pi in?></wml><?pi after?>\n"))
    out.append(("prolog", b"\xef\xbb\xbf<wml/>"))
    out.append(("prolog", b""))
    out.append(("prolog", b" "))
    out.append(("prolog", b"<"))
    return out


SPECIAL_NAMES = ["Data", "Meta", "Type", "Add", "Replace", "Item", "DevInf", "MgmtTree", "ConversationId", "MIME", "Content", "zzlit", "Ext"]
SPECIAL_NS = ["syncml:devinf", "syncml:dmddf1.2", "syncml:metinf", "urn:unknown", "Email2:", "AirSyncBase:", "ComposeMail:"]
TEXTS = ["x", "\n", "\n\n", "  ", "text/x-vcard", "text/clear", "YWJj", "!!", "a&amp;b", "&#65;", "l1\nl2\n", "\t", "&lt;tag&gt;", "é€"]


def shape_docs(tj, rng, n):
    """random well-formed documents over the names the callbacks treat specially, in every language"""
    out = []
    langs = [l for l in tj["langs"] if l["root"] and ":" not in l["root"]]
    for _ in range(n):
        lang = rng.choice(langs)
        rows = tj["tables"][str(lang["tags"])]["rows"] if lang["tags"] >= 0 else []
        names = [r[0] for r in rows if re.fullmatch(r"[A-Za-z_][\w.-]*", r[0])] or ["x"]
        nss = [r[0] for r in (tj["tables"][str(lang["ns"])]["rows"] if lang["ns"] >= 0 else [])]
        budget = [rng.range(5, 60)]

        def elt(depth):
            budget[0] -= 1
            name = rng.choice(SPECIAL_NAMES) if rng.chance(2, 5) else rng.choice(names)
            s = "<" + name
            if rng.chance(1, 4):
                s += " xmlns='%s'" % (rng.choice(nss) if nss and rng.chance(2, 3) else rng.choice(SPECIAL_NS))
            for i in range(rng.below(3) if rng.chance(1, 4) else 0):
                s += " a%d='v%d'" % (i, rng.below(3))
            kids = ""
            nk = rng.below(5) if depth < 7 and budget[0] > 0 else 0
            for _ in range(nk):
                r = rng.below(10)
                if r < 4 and budget[0] > 0:
                    kids += elt(depth + 1)
                elif r < 7:
                    kids += rng.choice(TEXTS)
                elif r == 7:
                    kids += "<![CDATA[%s]]>" % rng.choice(["", "c", "l1\nl2", "]]", "YWJj", "<x/>"])
                elif r == 8:
                    kids += rng.choice(["<?pi d?>", "<!-- c -->"])
                else:
                    kids += "<Meta><Type>%s</Type></Meta>" % rng.choice(DATA_TYPES).decode()
            return s + ">" + kids + "</" + name + ">" if (kids or rng.chance(1, 2)) else s + "/>"
        root = lang["root"]
        dt = rng.choice([doctype_of(lang), doctype_of(lang), ""])
        body = "".join(elt(1) for _ in range(rng.range(1, 3)))
        doc = rng.choice(DECLS[:4]).decode() + dt + "<%s%s>%s</%s>" % (root, (" xmlns='%s'" % nss[0]) if nss and rng.chance(1, 2) else "", body, root)
        out.append(("shape", doc.encode("utf-8")))
    return out


def cases(seed, quick):
    from . import gen, c06_gen
    tj = gen.tables_json()
    out = []
    corpus = [open(f, "rb").read() for f in convcases.corpus_xml()]
    out += [("corpus", d) for d in corpus]
    rng = common.Rng(seed, 7101)
    for i in range(300 if quick else 6000):
        d = convcases.xml_mutate(rng, rng.choice(corpus))
        if rng.chance(1, 5):
            d = convcases.xml_mutate(rng, d)
        if len(d) <= 400000:
            out.append(("mutation", d))
    rng = common.Rng(seed, 7102)
    tdocs = c06_gen.documents(tj, rng, quick=True)
    if quick:
        tdocs = [t for k, t in enumerate(tdocs) if k % 4 == seed % 4]
    out += [("tables", d[2]) for d in tdocs]
    rng = common.Rng(seed, 7103)
    out += syncml_data_docs(rng, quick)
    out += crlf_docs()
    out += embedded_docs(rng, quick)
    out += binary_docs(rng, quick)
    out += deep_docs(rng, quick)
    out += prolog_docs(tj, rng, quick)
    rng = common.Rng(seed, 7104)
    shapes = shape_docs(tj, rng, 400 if quick else 8000)
    out += shapes
    rng = common.Rng(seed, 7105)
    pool = [d for k, d in out if k in ("syncml-data", "embedded", "binary", "prolog")]
    for i in range(200 if quick else 4000):
        out.append(("mutation2", convcases.xml_mutate(rng, rng.choice(pool))))
    return out


# ----------------------------------------------------------------------------------------------
# running
# ----------------------------------------------------------------------------------------------

def split_answer(a):
    """harness line -> (events, status, tree-part) or None"""
    if a is None or not a.startswith("EV"):
        return None
    parts = a.split(" | ")
    if len(parts) != 3 or not parts[1].startswith("ST "):
        return ("", "0", " | ".join(parts[1:]))          # a marker line (!INPUT-MODIFIED ...): kept as the C's answer, never equal to the model's
    return parts[0][2:].strip(), parts[1][3:].strip(), parts[2]


def verdict(t):
    if t.startswith("T OK"):
        return "OK"
    m = re.match(r"T ERR (\d+)", t)
    return "ERR %s" % m.group(1) if m else "?"


def sub_answer(t):
    if t.startswith("T OK "):
        return "OK " + t[5:].split(" ", 1)[1]            # drop the charset
    m = re.match(r"T ERR (\d+)", t)
    return "ERR %s" % (m.group(1) if m else "0")


def features(ev, t):
    f = []
    toks = ev.split()
    if " [" in " " + ev:
        f.append("cdata-section")
    if "P" in toks:
        f.append("pi")
    if " R " in t:
        f.append("embedded-tree")
    if re.search(r" C \d+ ", t[4:]):
        f.append("cdata-node")
    if re.search(r" E t \d+ \d+ 1 ", t):
        f.append("binary-tag")
    if " E l " in t:
        f.append("literal-tag")
    return f


def correspond(seed=1, quick=True, extra_cases=None, only_extra=False, strict_codes=False):
    H = common.build_harness("xmlfront_harness")
    D = common.build_driver("XmlFront")
    lf_old = lf_hack_before_fix(H)
    LF = "LFOLD " if lf_old else ""
    cs = [] if only_extra else cases(seed, quick)
    cs += list(extra_cases or [])
    # de-duplicate by content (keep the first kind)
    seen, uniq = set(), []
    for k, d in cs:
        h = hashlib.sha256(d).digest()
        if h not in seen:
            seen.add(h)
            uniq.append((k, d))
    cs = uniq
    disagreements, soft, crashes_out = [], [], []
    dist = {"lf_hack_of_the_c": "before the fix (CR CR LF): model Model/XmlFrontLfOld.v" if lf_old else "fixed: model Model/XmlFront.v",
            "kinds": {}, "c_verdicts": {}, "features": {}, "expat_refused": 0, "nested_documents": 0, "rounds": 0, "sizes": {"max": 0, "total": 0}}
    c_answer = {}                 # doc hex -> tree part of the C's answer
    evaluations = 0
    samples = []
    todo = cs
    for rnd in range(MAX_ROUNDS):
        if not todo:
            break
        dist["rounds"] = rnd + 1
        hexes = [d.hex() if d else "-" for _, d in todo]
        ans, crashes = common.run_lines(H, hexes, shards=min(common.NPROC, max(1, len(hexes) // 4)))
        for c in crashes:
            # find the offending document: rerun the shard one by one
            lo, hi = c["range"]
            for i in range(lo, hi):
                if ans[i] is None or not ans[i].startswith("EV") or len(ans[i].split(" | ")) != 3:
                    a1, c1 = common.run_lines(H, [hexes[i]], shards=1)
                    if c1:
                        crashes_out.append({"kind": todo[i][0], "doc_hex": hexes[i], "stderr": c1[0]["stderr"][-1500:], "rc": c1[0]["rc"]})
                        ans[i] = None
                    else:
                        ans[i] = a1[0]
        parsed = [split_answer(a) for a in ans]
        for (k, d), hx, p in zip(todo, hexes, parsed):
            if p is not None:
                c_answer[hx] = p[2]
        # model, with the sub-answers known so far; iterate while the model asks for nested documents
        pending = [i for i, p in enumerate(parsed) if p is not None]
        subs = {i: {} for i in pending}
        results = {}
        nested_new = []
        for inner in range(MAX_ROUNDS):
            if not pending:
                break
            lines = []
            for i in pending:
                ev, st, _ = parsed[i]
                s = subs[i]
                lines.append(LF + "%s %s %d%s %s" % (hexes[i], st, len(s), "".join(" %s %s" % (h, a) for h, a in s.items()), ev))
            mo, mcr = common.run_lines(D, lines, shards=min(common.NPROC, max(1, len(lines) // 8)))
            need = {}
            nxt = []
            for i, o in zip(pending, mo):
                if o is not None and o.startswith("NEED "):
                    need.setdefault(o[5:], []).append(i)
                    nxt.append(i)
                else:
                    results[i] = o if o is not None else "bad driver-crash"
            unknown = [h for h in need if h not in c_answer]
            if unknown:
                a2, c2 = common.run_lines(H, unknown, shards=min(common.NPROC, max(1, len(unknown) // 4)))
                for h, a in zip(unknown, a2):
                    p = split_answer(a)
                    if p is None:
                        crashes_out.append({"kind": "embedded", "doc_hex": h, "stderr": (c2[0]["stderr"][-1500:] if c2 else ""), "rc": c2[0]["rc"] if c2 else None})
                        c_answer[h] = "T ERR 0"
                    else:
                        c_answer[h] = p[2]
                    nested_new.append(("nested(%s)" % todo[need[h][0]][0].split("(")[-1].rstrip(")"), bytes.fromhex(h)))
            for h, idxs in need.items():
                for i in idxs:
                    subs[i][h] = sub_answer(c_answer[h])
            pending = nxt
        for i in pending:
            results[i] = "bad nested-rounds-exhausted"
        # compare
        for i, p in enumerate(parsed):
            if p is None:
                continue
            k, d = todo[i]
            ev, st, t = p
            m = results.get(i, "bad no-answer")
            evaluations += 1
            dist["kinds"][k] = dist["kinds"].get(k, 0) + 1
            v = verdict(t)
            dist["c_verdicts"][v] = dist["c_verdicts"].get(v, 0) + 1
            dist["sizes"]["max"] = max(dist["sizes"]["max"], len(d))
            dist["sizes"]["total"] += len(d)
            if st == "0":
                dist["expat_refused"] += 1
            for f in features(ev, t):
                dist["features"][f] = dist["features"].get(f, 0) + 1
            if subs.get(i):
                dist["features"]["asked-nested-parse"] = dist["features"].get("asked-nested-parse", 0) + 1
            if len(samples) < 12 and (evaluations % 97 == 1):
                samples.append({"kind": k, "doc": d[:300].decode("latin-1"), "c": t[:200], "model": m[:200]})
            if t == m:
                continue
            if t.startswith("T ERR") and m.startswith("T ERR") and "!" not in t:
                soft.append({"kind": k, "doc_hex": hexes[i][:4000], "c": t, "model": m})
                if not strict_codes:
                    continue
                k = "code:" + k
            disagreements.append({"kind": k, "doc_hex": hexes[i], "doc": d[:600].decode("latin-1"), "c": t[:1500], "model": m[:1500],
                                  "expat_status": st, "events": ev[:1500]})
        # nested documents become cases of the next round
        new = []
        for k, d in nested_new:
            h = hashlib.sha256(d).digest()
            if h not in seen:
                seen.add(h)
                new.append((k, d))
        dist["nested_documents"] += len(new)
        todo = new
    for c in crashes_out:
        disagreements.append({"kind": "crash:" + c["kind"], "doc_hex": c["doc_hex"], "c": "harness crashed / sanitizer report rc=%s" % c["rc"],
                              "model": "", "stderr": c["stderr"]})
    dist["distinct_documents"] = len(seen)
    return {"evaluations": evaluations, "disagreements": disagreements, "soft_error_code_differences": len(soft), "soft_samples": soft[:5],
            "samples": samples, "distribution": dist}


# ----------------------------------------------------------------------------------------------
# whole conversion: front end + WBXML encoder inside Conv.conv_run  (coq/Model/ConvXml2Wbxml.v)
# ----------------------------------------------------------------------------------------------

OPTION_TUPLES = [(v, kw, st, an) for v in (0, 1, 2, 3) for kw in (0, 1) for st in (0, 1) for an in (0, 1)]
FULL_KINDS = ("corpus", "syncml-data", "crlf", "embedded", "embedded-deep", "binary", "binary-deep", "deep", "deep-after-embedded", "wide", "entities", "tables")


def conv_cases(seed, quick):
    """(kind, document, (version, keep_ws, use_strtbl, anonymous)): the streams of cases() x option tuples —
    thorough: all 32 tuples for the corpus and the constructed streams (documents up to 20 KB; the model's string table
    and text merge are quadratic), 4 sampled tuples for the bulk streams and the big documents;
    quick: 2 sampled tuples per document (every tuple is used about 1/16 of the time)"""
    rng = common.Rng(seed, 7201)
    out = []
    for k, d in cases(seed, quick):
        if len(d) > 120000:
            continue
        if quick:
            ts = [rng.choice(OPTION_TUPLES) for _ in range(2)]
        elif k in FULL_KINDS and len(d) <= 20000 and k != "wide":
            ts = OPTION_TUPLES
        else:
            ts = [rng.choice(OPTION_TUPLES) for _ in range(4)]
        for t in dict.fromkeys(ts):
            out.append((k, d, t))
    return out


def correspond_conv(seed=1, quick=True, extra_cases=None, only_extra=False, strict_codes=False):
    """model of wbxml_conv_xml2wbxml_run vs the C: status (OK / ERR, codes soft) and the exact WBXML bytes"""
    H = common.build_harness("c02c_harness")
    HT = common.build_harness("xmlfront_harness")
    D = common.build_driver("C02c")
    lf_old = lf_hack_before_fix(HT)
    LF = "LFOLD " if lf_old else ""
    cs = [] if only_extra else conv_cases(seed, quick)
    cs += list(extra_cases or [])
    seen, uniq = set(), []
    for k, d, t in cs:
        h = (hashlib.sha256(d).digest(), t)
        if h not in seen:
            seen.add(h)
            uniq.append((k, d, t))
    cs = uniq
    lines = ["%s %d %d %d %d" % ((d.hex() if d else "-",) + t) for _, d, t in cs]
    ans, crashes = common.run_lines(H, lines, shards=min(common.NPROC, max(1, len(lines) // 4)))
    disagreements, soft, samples = [], [], []
    dist = {"lf_hack_of_the_c": "before the fix (CR CR LF): model Model/XmlFrontLfOld.v" if lf_old else "fixed: model Model/XmlFront.v",
            "kinds": {}, "c_verdicts": {}, "options": {}, "expat_refused": 0, "nested_documents": 0, "wbxml_bytes": 0}
    for c in crashes:
        lo, hi = c["range"]
        for i in range(lo, hi):
            if ans[i] is None or not ans[i].startswith("EV") or len(ans[i].split(" | ")) != 3:
                a1, c1 = common.run_lines(H, [lines[i]], shards=1)
                if c1:
                    disagreements.append({"kind": "crash:" + cs[i][0], "doc_hex": lines[i].split(" ")[0], "options": cs[i][2],
                                          "c": "harness crashed / sanitizer report rc=%s" % c1[0]["rc"], "model": "", "stderr": c1[0]["stderr"][-1500:]})
                    ans[i] = None
                else:
                    ans[i] = a1[0]
    parsed = [split_answer(a) for a in ans]
    pending = [i for i, p in enumerate(parsed) if p is not None]
    subs = {i: {} for i in pending}
    results = {}
    tree_answer = {}
    for rnd in range(MAX_ROUNDS):
        if not pending:
            break
        ml = []
        for i in pending:
            ev, st, _ = parsed[i]
            sb = subs[i]
            ml.append(LF + "%s %s %d %d %d %d %d%s %s" % ((lines[i].split(" ")[0], st) + cs[i][2] + (len(sb), "".join(" %s %s" % (h, a) for h, a in sb.items()), ev)))
        mo, _ = common.run_lines(D, ml, shards=min(common.NPROC, max(1, len(ml) // 8)))
        need, nxt = {}, []
        for i, o in zip(pending, mo):
            if o is not None and o.startswith("NEED "):
                need.setdefault(o[5:], []).append(i)
                nxt.append(i)
            else:
                results[i] = o if o is not None else "bad driver-crash"
        unknown = [h for h in need if h not in tree_answer]
        if unknown:
            a2, _ = common.run_lines(HT, unknown, shards=min(common.NPROC, max(1, len(unknown) // 4)))
            for h, a in zip(unknown, a2):
                p = split_answer(a)
                tree_answer[h] = p[2] if p is not None else "T ERR 0"
            dist["nested_documents"] += len(unknown)
        for h, idxs in need.items():
            for i in idxs:
                subs[i][h] = sub_answer(tree_answer[h])
        pending = nxt
    for i in pending:
        results[i] = "bad nested-rounds-exhausted"
    evaluations = 0
    for i, p in enumerate(parsed):
        if p is None:
            continue
        k, d, t = cs[i]
        ev, st, w = p
        m = results.get(i, "bad no-answer")
        evaluations += 1
        dist["kinds"][k] = dist["kinds"].get(k, 0) + 1
        dist["options"]["v%d kw%d st%d an%d" % t] = dist["options"].get("v%d kw%d st%d an%d" % t, 0) + 1
        v = "OK" if w.startswith("W OK") else (w.split(" ")[0] + " " + " ".join(w.split(" ")[1:3]))
        dist["c_verdicts"][v] = dist["c_verdicts"].get(v, 0) + 1
        if st == "0":
            dist["expat_refused"] += 1
        if w.startswith("W OK "):
            dist["wbxml_bytes"] += (len(w) - 5) // 2
        if len(samples) < 12 and evaluations % 197 == 1:
            samples.append({"kind": k, "options": t, "doc": d[:200].decode("latin-1"), "c": w[:120], "model": m[:120]})
        if w == m:
            continue
        if w.startswith("W ERR") and m.startswith("W ERR") and "!" not in w:
            soft.append({"kind": k, "options": t, "doc_hex": d.hex()[:4000], "c": w, "model": m})
            if not strict_codes:
                continue
            k = "code:" + k
        disagreements.append({"kind": k, "options": t, "doc_hex": d.hex(), "doc": d[:600].decode("latin-1"), "c": w[:1500], "model": m[:1500],
                              "expat_status": st})
    dist["distinct_cases"] = len(cs)
    return {"evaluations": evaluations, "disagreements": disagreements, "soft_error_code_differences": len(soft), "soft_samples": soft[:5],
            "samples": samples, "distribution": dist}


# ----------------------------------------------------------------------------------------------
# replay: the callbacks driven directly with arbitrary event lists (not only what Expat can produce)
# ----------------------------------------------------------------------------------------------

def _hx(b):
    if isinstance(b, str):
        b = b.encode()
    return b.hex() if b else "-"


def ev_start(name, attrs=()):
    return "S %s 0 %d%s" % (_hx(name), len(attrs), "".join(" %s %s" % (_hx(a), _hx(v)) for a, v in attrs))


def ev_end(name):
    return "E %s 0" % _hx(name)


def ev_chars(b):
    return "C %s" % _hx(b)


def ev_decl(version=b"1.0", encoding=None):
    return "X %s %s" % (_hx(version) if version is not None else "~", _hx(encoding) if encoding is not None else "~")


def ev_doctype(name, sysid=None, pubid=None):
    return "D %s %s %s" % (_hx(name), _hx(sysid) if sysid is not None else "~", _hx(pubid) if pubid is not None else "~")


EVERY_KIND = [ev_decl(), ev_decl(b"1.0", b"ISO-8859-1"), ev_doctype(b"wml", b"http://www.wapforum.org/DTD/wml13.dtd", b"-//WAPFORUM//DTD WML 1.3//EN"),
              ev_doctype(b"x", None, b"-//NOBODY//DTD None//EN"), ev_start(b"p"), ev_start(b"AirSync:|Add", [(b"a", b"v")]), ev_end(b"p"), ev_end(b"x"),
              ev_chars(b"text"), ev_chars(b"YWJj"), ev_chars(b"!!"), ev_chars(b"\n"), "[", "]", "P 7069 64", ev_start(b"syncml:devinf|DevInf"), ev_end(b"syncml:devinf|DevInf"),
              ev_start(b"Email2:|ConversationId"), ev_end(b"Email2:|ConversationId"), ev_start(b"Data"), ev_end(b"Data")]


def failing_prefixes():
    """(label, events): every way the callbacks can record an error, with as much state around it as possible"""
    sync = ev_start(b"AirSync:|Sync")
    conv = ev_start(b"Email2:|ConversationId")
    out = []
    out.append(("unknown-root", [ev_start(b"nobody")]))
    out.append(("unknown-root-after-doctype", [ev_decl(), ev_doctype(b"x", None, b"-//NOBODY//DTD None//EN"), ev_start(b"nobody", [(b"a", b"b")])]))
    out.append(("nesting", [ev_start(b"wml")] + [ev_start(b"p")] * 1000))
    out.append(("nesting-in-cdata-over-cache", [sync] + [ev_start(b"AirSync:|Add")] * 997 + [conv, ev_chars(b"YWJj"), "[", ev_chars(b"c"), ev_start(b"x")]))
    # the nesting error at a child of a binary element that has cached text: the cache must have been converted BEFORE the
    # error is recorded (/repo c0648d3), otherwise the next end tag changes the failed state
    out.append(("nesting-under-cache", [sync] + [ev_start(b"AirSync:|Add")] * 998 + [conv, ev_chars(b"YWJj"), ev_start(b"x")]))
    out.append(("nesting-under-bad-cache", [sync] + [ev_start(b"AirSync:|Add")] * 998 + [conv, ev_chars(b"!!"), ev_start(b"x")]))
    out.append(("b64-at-child", [sync, conv, ev_chars(b"!!"), ev_start(b"x")]))
    out.append(("b64-at-end", [sync, conv, ev_chars(b"!"), ev_chars(b"!"), ev_end(b"Email2:|ConversationId")]))
    out.append(("b64-blank", [sync, ev_start(b"ComposeMail:|MIME"), ev_chars(b" \n "), ev_end(b"ComposeMail:|MIME")]))
    out.append(("b64-while-skipping", [ev_doctype(b"SyncML", None, b"-//SYNCML//DTD SyncML 1.2//EN"), ev_start(b"SyncML"), ev_start(b"Email2:|ConversationId")]))   # literal in SyncML: no cache
    out.append(("internal-text-without-current", [ev_start(b"wml"), "[", ev_end(b"wml"), ev_chars(b"a")]))
    out.append(("memory-second-root", [ev_start(b"wml"), "[", ev_end(b"wml"), ev_start(b"p")]))
    out.append(("internal-cdata-without-current", [ev_start(b"wml"), "[", ev_end(b"wml"), "["]))
    out.append(("internal-end-without-current", [ev_start(b"wml"), "[", ev_end(b"wml"), ev_end(b"wml")]))
    out.append(("internal-endcdata-without-current", [ev_start(b"wml"), "[", ev_end(b"wml"), "]"]))
    out.append(("embedded-parse-fails", [ev_doctype(b"SyncML", None, b"-//SYNCML//DTD SyncML 1.2//EN"), ev_start(b"SyncML"), ev_start(b"Data"),
                                         ev_start(b"syncml:devinf|DevInf"), ev_start(b"a"), ev_end(b"a"), ev_end(b"syncml:devinf|DevInf")]))
    out.append(("embedded-in-other-language", [ev_start(b"wml"), ev_start(b"syncml:devinf|DevInf"), ev_end(b"syncml:devinf|DevInf")]))
    out.append(("ddf-in-syncml11", [ev_doctype(b"SyncML", None, b"-//SYNCML//DTD SyncML 1.1//EN"), ev_start(b"SyncML"),
                                    ev_start(b"syncml:dmddf1.2|MgmtTree"), ev_end(b"syncml:dmddf1.2|MgmtTree")]))
    return out


def replay_cases(seed, quick):
    from . import gen
    tj = gen.tables_json()
    rng = common.Rng(seed, 7301)
    out = []
    # 1. every failing prefix followed by every event kind (each kind alone, all in order, random orders)
    for label, pre in failing_prefixes():
        out.append(("fail:" + label, pre))
        for e in EVERY_KIND:
            out.append(("fail+1:" + label, pre + [e]))
        out.append(("fail+all:" + label, pre + EVERY_KIND))
        for _ in range(2 if quick else 12):
            suffix = [rng.choice(EVERY_KIND) for _ in range(rng.range(5, 60))]
            out.append(("fail+random:" + label, pre + suffix))
    # 2. random lists over the names the callbacks treat specially (balanced or not), after a root element
    langs = [l for l in tj["langs"] if l["root"] and ":" not in l["root"]]
    texts = [b"x", b"\n", b"YWJj", b"Zg==", b"!!", b" ", b"text/x-vcard", b"text/clear", b"a&b", b"l1\nl2"]
    for _ in range(150 if quick else 3000):
        lang = rng.choice(langs)
        rows = tj["tables"][str(lang["tags"])]["rows"] if lang["tags"] >= 0 else []
        nss = [r[0] for r in (tj["tables"][str(lang["ns"])]["rows"] if lang["ns"] >= 0 else [])]
        names = [r[0].encode() for r in rows if re.fullmatch(r"[A-Za-z_][\w.-]*", r[0])] or [b"x"]
        def nm():
            n = rng.choice(SPECIAL_NAMES).encode() if rng.chance(2, 5) else rng.choice(names)
            if nss and rng.chance(1, 2):
                n = rng.choice(nss).encode() + b"|" + n
            elif rng.chance(1, 8):
                n = rng.choice(SPECIAL_NS).encode() + b"|" + n
            return n
        evs = []
        if rng.chance(1, 2):
            evs.append(ev_decl(b"1.0", rng.choice([None, b"UTF-8", b"ISO-8859-1", b"x-unknown"])))
        if rng.chance(2, 3):
            evs.append(ev_doctype(lang["root"].encode(), lang["dtd"].encode() if lang["dtd"] and rng.chance(1, 2) else None,
                                  lang["pub_text"].encode() if lang["pub_text"] and rng.chance(2, 3) else None))
        root = lang["root"].encode()
        evs.append(ev_start((nss[0].encode() + b"|" + root) if nss and rng.chance(1, 2) else root))
        open_names = [root]
        for _ in range(rng.range(1, 80)):
            r = rng.below(20)
            if r < 6:
                n = nm()
                evs.append(ev_start(n, [(b"a%d" % j, b"v") for j in range(rng.below(3))] if rng.chance(1, 4) else ()))
                open_names.append(n)
            elif r < 11:
                n = open_names.pop() if open_names and rng.chance(5, 6) else nm()
                evs.append(ev_end(n))
            elif r < 16:
                evs.append(ev_chars(rng.choice(texts)))
            elif r == 16:
                evs.append("[")
            elif r == 17:
                evs.append("]")
            elif r == 18:
                evs.append("P 7069 64")
            else:
                evs.append(rng.choice(EVERY_KIND[:4]))
        out.append(("random", evs))
    return out


def correspond_replay(seed=1, quick=True):
    """callbacks of the C driven with arbitrary event lists vs `run init_ctx` of the model: error, skip level, depth of
    `current`, cached octets, charset, language and the whole tree (also after an error); plus the library-side oracle
    of the strict sticky-error theorem (STICKY, see harness/xmlfront_replay.c)"""
    H = common.build_harness("xmlfront_replay")
    HT = common.build_harness("xmlfront_harness")
    D = common.build_driver("XmlFront")
    lf_old = lf_hack_before_fix(HT)
    LF = "LFOLD " if lf_old else ""
    cs = replay_cases(seed, quick)
    # round 5 (C02f_text_split_invariant): the same list with its character-data events delivered in random non-empty
    # pieces.  Base lists: the random lists above, the event logs of real documents, vCard texts in <Data>.
    # kind "split": no piece is a lone LF -> the C must end in the same state as for the unsplit list;
    # kind "split-lf": pieces that are a lone LF on purpose -> only C == model (the pieces are visible: LF -> CR LF).
    rng = common.Rng(seed, 7302)
    base = [(k, evs) for k, evs in cs if k == "random"]
    docs = cases(seed, True)
    dh = [d.hex() if d else "-" for _, d in docs]
    da, _ = common.run_lines(HT, dh, shards=min(common.NPROC, max(1, len(dh) // 4)))
    emb_hex = ("446576496e66", "4d676d7454726565")
    logs = []
    for (k, d), a in zip(docs, da):
        p = split_answer(a)
        if p is None or not p[2].startswith("T OK ") or any(h in p[0] for h in emb_hex):
            continue
        toks = p[0].split(" ")
        if len(toks) > 4000:
            continue
        logs.append(("log:" + k.split("(")[0], _log_events(toks)))
    for i in range(len(logs) - 1, 0, -1):
        j = rng.below(i + 1)
        logs[i], logs[j] = logs[j], logs[i]
    base += logs[:(200 if quick else 1500)]
    vc = [b"BEGIN:VCARD\nVERSION:2.1\nN:a;b\nEND:VCARD\n", b"\n", b"\n\n", b"a\nb", b"x", b"\r\n", b"text\n",
          b"BEGIN:VCARD\r\nN:a\r\nEND:VCARD\r\n", b"a\r\r\nb", b"\r\n\r\n", b"a\n\r\nb\r"]
    for mt in (b"text/x-vcard", b"text/x-vcalendar", b"text/clear", b"text/directory;profile=vCard", b"application/vnd.syncml-devinf+xml", None):
        for cmd in (b"Add", b"Replace", b"Put"):
            for txt in vc:
                for cdata in (False, True):
                    evs = [ev_start(b"SyncML"), ev_start(cmd)]
                    if mt is not None:
                        evs += [ev_start(b"Meta"), ev_start(b"Type"), ev_chars(mt), ev_end(b"Type"), ev_end(b"Meta")]
                    evs += [ev_start(b"Item"), ev_start(b"Data")] + (["["] if cdata else []) + [ev_chars(txt)] + (["]"] if cdata else [])
                    evs += [ev_end(b"Data"), ev_end(b"Item"), ev_end(cmd), ev_end(b"SyncML")]
                    base.append(("vcard", evs))
    split_pairs = []                                       # (index of the base list, index of the split list, lone LF allowed)
    for k, evs in base:
        if not any(e.startswith("C ") and len(e) > 4 for e in evs):
            continue
        bi = len(cs)
        cs.append(("base:" + k, evs))
        for lf in (False, True, "crlf"):
            for _ in range(1 if quick else 3):
                sp = _split_texts(evs, rng, lf)
                if sp is not None:
                    split_pairs.append((bi, len(cs), lf))
                    cs.append(({False: "split:", True: "split-lf:", "crlf": "split-crlf:"}[lf] + k, sp))
    # the LF-hack fix: "...CR" then LF as two events (what Expat delivers for &#13;&#10;), and CR LF in one event
    for mt in (b"text/x-vcard", b"text/x-vcalendar", b"text/clear", None):
        for pieces in ([b"BEGIN:VCARD", b"\r", b"\n"], [b"a\r", b"\n", b"b\r", b"\n"], [b"\r", b"\n"], [b"\r\n"], [b"a\r\n"], [b"a", b"\n"],
                       [b"\n", b"\r", b"\n"], [b"a\r", b"\r", b"\n"]):
            for cdata in (False, True):
                evs = [ev_start(b"SyncML"), ev_start(b"Add")]
                if mt is not None:
                    evs += [ev_start(b"Meta"), ev_start(b"Type"), ev_chars(mt), ev_end(b"Type"), ev_end(b"Meta")]
                evs += [ev_start(b"Item"), ev_start(b"Data")] + (["["] if cdata else []) + [ev_chars(x) for x in pieces] + (["]"] if cdata else [])
                evs += [ev_end(b"Data"), ev_end(b"Item"), ev_end(b"Add"), ev_end(b"SyncML")]
                cs.append(("crlf", evs))
    # the same inside a binary-flagged element whose first child is a CDATA section (the cached path of the test)
    for pieces in ([b"YQ==\r", b"\n"], [b"\r", b"\n", b"YQ=="]):
        head = [ev_start(b"AirSync:|Sync"), ev_start(b"AirSync:|Replace"), ev_start(b"AirSync:|Item"), ev_start(b"AirSync:|Data"), "[", ev_chars(b"x"), "]"]
        cs.append(("crlf", head + [ev_chars(x) for x in pieces] + [ev_end(b"AirSync:|Data"), ev_end(b"AirSync:|Item"), ev_end(b"AirSync:|Replace"), ev_end(b"AirSync:|Sync")]))
        cs.append(("crlf", head + [ev_chars(x) for x in pieces]))        # not flushed: the cached octets are compared
    lines = [" ".join(evs) for _, evs in cs]
    ans, crashes = common.run_lines(H, lines, shards=min(common.NPROC, max(1, len(lines) // 4)))
    disagreements, samples = [], []
    dist = {"lf_hack_of_the_c": "before the fix (CR CR LF): model Model/XmlFrontLfOld.v" if lf_old else "fixed: model Model/XmlFront.v",
            "kinds": {}, "errors": {}, "sticky_checked": 0, "events": 0, "split": {"pairs": 0, "pieces": 0, "same_as_unsplit": 0,
                                                                                   "lone_lf_pairs": 0, "lone_lf_differs": 0,
                                                                                   "lf_after_cr_pairs": 0, "lf_after_cr_differs": 0}}
    for c in crashes:
        lo, hi = c["range"]
        for i in range(lo, hi):
            if ans[i] is None or not ans[i].startswith("Q "):
                a1, c1 = common.run_lines(H, [lines[i]], shards=1)
                if c1:
                    disagreements.append({"kind": "crash:" + cs[i][0], "doc_hex": "", "events": lines[i][:3000], "c": "harness crashed / sanitizer report rc=%s" % c1[0]["rc"],
                                          "model": "", "stderr": c1[0]["stderr"][-1500:]})
                    ans[i] = None
                else:
                    ans[i] = a1[0]
    pending = [i for i, a in enumerate(ans) if a is not None]
    subs = {i: {} for i in pending}
    results, tree_answer = {}, {}
    for rnd in range(MAX_ROUNDS):
        if not pending:
            break
        ml = [LF + "R %d%s %s" % (len(subs[i]), "".join(" %s %s" % (h, a) for h, a in subs[i].items()), lines[i]) for i in pending]
        mo, _ = common.run_lines(D, ml, shards=min(common.NPROC, max(1, len(ml) // 8)))
        need, nxt = {}, []
        for i, o in zip(pending, mo):
            if o is not None and o.startswith("NEED "):
                need.setdefault(o[5:], []).append(i)
                nxt.append(i)
            else:
                results[i] = o if o is not None else "bad driver-crash"
        unknown = [h for h in need if h not in tree_answer]
        if unknown:
            a2, _ = common.run_lines(HT, unknown, shards=1)
            for h, a in zip(unknown, a2):
                p = split_answer(a)
                tree_answer[h] = p[2] if p is not None else "T ERR 0"
        for h, idxs in need.items():
            for i in idxs:
                subs[i][h] = sub_answer(tree_answer[h])
        pending = nxt
    evaluations = 0
    for i, a in enumerate(ans):
        if a is None:
            continue
        k, evs = cs[i]
        q, _, sticky = a.partition(" | STICKY ")
        m = results.get(i, "bad no-answer")
        evaluations += 1
        kk = k.split(":")[0]
        dist["kinds"][kk] = dist["kinds"].get(kk, 0) + 1
        dist["events"] += len(evs)
        err = q.split(" ")[1]
        dist["errors"][err] = dist["errors"].get(err, 0) + 1
        if err != "0":
            dist["sticky_checked"] += 1
        if len(samples) < 8 and evaluations % 61 == 1:
            samples.append({"kind": k, "events": lines[i][:200], "c": a[:160], "model": m[:160]})
        if sticky != "ok":
            disagreements.append({"kind": "sticky:" + k, "doc_hex": "", "events": lines[i][:3000], "c": a[:800], "model": m[:800],
                                  "what": "the C changed its state after an error was recorded (strict sticky-error oracle)"})
        if q != m:
            disagreements.append({"kind": "replay:" + k, "doc_hex": "", "events": lines[i][:3000], "c": q[:1500], "model": m[:1500]})
    for bi, si, lf in split_pairs:
        if ans[bi] is None or ans[si] is None:
            continue
        qb = ans[bi].partition(" | STICKY ")[0]
        qs = ans[si].partition(" | STICKY ")[0]
        npieces = sum(1 for e in cs[si][1] if e.startswith("C ")) - sum(1 for e in cs[bi][1] if e.startswith("C "))
        if lf == "crlf":
            # only LFs that follow a CR are cut out: with the fix the C must end in the same state (C02f_lone_lf_fixed);
            # before the fix it does not (the defect), which is counted, not reported
            dist["split"]["lf_after_cr_pairs"] += 1
            if qb != qs:
                dist["split"]["lf_after_cr_differs"] += 1
                if not lf_old:
                    disagreements.append({"kind": "split-crlf:" + cs[si][0], "doc_hex": "", "events": lines[si][:3000], "c": qs[:1500], "model": qb[:1500],
                                          "what": "CR then LF as two events is not the same as CR LF in one (model column: the C on the unsplit list)"})
            continue
        if lf:
            dist["split"]["lone_lf_pairs"] += 1
            if qb != qs:
                dist["split"]["lone_lf_differs"] += 1
            continue
        dist["split"]["pairs"] += 1
        dist["split"]["pieces"] += npieces
        if qb == qs:
            dist["split"]["same_as_unsplit"] += 1
        else:
            disagreements.append({"kind": "split:" + cs[si][0], "doc_hex": "", "events": lines[si][:3000], "c": qs[:1500], "model": qb[:1500],
                                  "what": "the C ends in another state when a text is delivered in pieces (model column: the C on the unsplit list)"})
    return {"evaluations": evaluations, "disagreements": disagreements, "samples": samples, "distribution": dist}


def _log_events(toks):
    """the event log of the harness (one flat token list) cut into events"""
    out, i = [], 0
    while i < len(toks):
        t = toks[i]
        if t == "X":
            n = 3
        elif t == "D":
            n = 4
        elif t == "S":
            n = 4 + 2 * int(toks[i + 3])
        elif t == "E":
            n = 3
        elif t == "C":
            n = 2
        elif t in ("[", "]"):
            n = 1
        elif t == "P":
            n = 3
        else:
            raise ValueError("event log token %r" % t)
        out.append(" ".join(toks[i:i + n]))
        i += n
    return out


def _split_texts(evs, rng, lone_lf):
    """every character-data event of two octets or more cut into random non-empty pieces; lone_lf: an LF is cut out as a
    piece of its own wherever there is one (else no piece is exactly one LF).  None when nothing could be cut."""
    out, cut = [], False
    for e in evs:
        if not (e.startswith("C ") and len(e) > 4):
            out.append(e)
            continue
        b = bytes.fromhex(e[2:])
        pieces, cur = [], b""
        i = 0
        while i < len(b):
            cur += b[i:i + 1]
            i += 1
            if lone_lf == "crlf":
                cut_here = i < len(b) and ((b[i:i + 1] == b"\n" and cur.endswith(b"\r")) or (cur == b"\n" and len(pieces) > 0 and pieces[-1].endswith(b"\r")))
            else:
                cut_here = i < len(b) and (rng.chance(1, 3) or (lone_lf and (b[i:i + 1] == b"\n" or cur == b"\n")))
            if cut_here:
                pieces.append(cur)
                cur = b""
        pieces.append(cur)
        if not lone_lf:
            # join a lone LF with a neighbour
            j = 0
            while j < len(pieces):
                if pieces[j] == b"\n" and len(pieces) > 1:
                    if j + 1 < len(pieces):
                        pieces[j:j + 2] = [pieces[j] + pieces[j + 1]]
                    else:
                        pieces[j - 1:j + 1] = [pieces[j - 1] + pieces[j]]
                        j -= 1
                else:
                    j += 1
        elif lone_lf != "crlf" and not any(x == b"\n" for x in pieces):
            pieces = [b]
        if len(pieces) > 1:
            cut = True
        out += [ev_chars(x) for x in pieces]
    return out if cut else None


def correspond_inverse(seed=1, quick=True):
    """checks the parser assumptions of Model/XmlFrontEvents.events_of against the C: trees the library built for real
    documents (all streams of cases()) -> events_of (the EXTRACTED function) -> the C callbacks (replay harness) -> the
    dumped tree must be the original one, for every tree the extracted root_canon accepts (trees with embedded documents
    are not replayed: their content comes from input bytes, not from the tree)"""
    HT = common.build_harness("xmlfront_harness")
    HR = common.build_harness("xmlfront_replay")
    D = common.build_driver("XmlFront")
    cs = cases(seed, quick)
    hexes = [d.hex() if d else "-" for _, d in cs]
    ans, _ = common.run_lines(HT, hexes, shards=min(common.NPROC, max(1, len(hexes) // 4)))
    trees = {}
    sources = []                                      # (kind, document, event log, tree body) of every accepted document
    for (k, d), a in zip(cs, ans):
        p = split_answer(a)
        if p is None or not p[2].startswith("T OK ") or "!" in p[2]:
            continue
        body = p[2][5:].split(" ", 1)[1]              # drop the charset: "<lang> <n> node*"
        trees.setdefault(body, k)
        sources.append((k, d, p[0], body))
    bodies = list(trees)
    mo, _ = common.run_lines(D, ["V " + b for b in bodies], shards=min(common.NPROC, max(1, len(bodies) // 8)))
    todo = [(b, o[6:].strip()) for b, o in zip(bodies, mo) if o is not None and o.startswith("EVS 1")]
    ro, crashes = common.run_lines(HR, [ev for _, ev in todo], shards=min(common.NPROC, max(1, len(todo) // 4)))
    disagreements = []
    dist = {"trees": len(bodies), "canonical": len(todo), "not_canonical_by_kind": {}, "kinds": {}, "with_binary": 0, "with_cdata": 0, "with_namespace": 0}
    for b, o in zip(bodies, mo):
        if o is None or not o.startswith("EVS 1"):
            kk = trees[b].split("(")[0]
            dist["not_canonical_by_kind"][kk] = dist["not_canonical_by_kind"].get(kk, 0) + 1
    for (b, ev), a in zip(todo, ro):
        k = trees[b]
        dist["kinds"][k.split("(")[0]] = dist["kinds"].get(k.split("(")[0], 0) + 1
        if re.search(r" E t \d+ \d+ 1 ", " " + b):
            dist["with_binary"] += 1
        if " C " in b:
            dist["with_cdata"] += 1
        if "7c" in ev:
            dist["with_namespace"] += 1
        if a is None:
            disagreements.append({"kind": "crash:inverse:" + k, "doc_hex": "", "events": ev[:3000], "c": "replay harness crashed", "model": b[:1500]})
            continue
        q = a.partition(" | STICKY ")[0].split(" ")
        # Q <error> <skip> <depth> <pending> <charset> <lang> <n> node*
        got = " ".join(q[6:])
        if q[1] != "0" or got != b:
            disagreements.append({"kind": "inverse:" + k, "doc_hex": "", "events": ev[:3000], "c": a[:1500], "model": b[:1500],
                                  "what": "the C callbacks fed with events_of(tree) did not rebuild the tree"})
    # Goal 2 of round 5: the predicate on the SOURCE documents.  evs_clause (extracted, Model/XmlFrontCanonEvents.v) on
    # the events Expat delivered for each accepted document: which fraction is canonical, which clause excludes the rest;
    # and the theorem C02f_image_canonical against the C: no clause violated => the C's tree satisfies root_canon.
    ko, _ = common.run_lines(D, ["K " + ev for _, _, ev, _ in sources], shards=min(common.NPROC, max(1, len(sources) // 8)))
    canon_of = {b: (o is not None and o.startswith("EVS 1")) for b, o in zip(bodies, mo)}
    emb_bodies = [b for b in bodies if " R " in (" " + b)]
    wo, _ = common.run_lines(D, ["W " + b for b in emb_bodies], shards=1)
    canon_all_of = {b: (o is not None and o.startswith("W 1")) for b, o in zip(emb_bodies, wo)}
    corpus_name = {}
    for f in convcases.corpus_xml():
        corpus_name.setdefault(hashlib.sha256(open(f, "rb").read()).digest(), os.path.relpath(f, common.REPO) if f.startswith(common.REPO) else f)
    src = {"accepted_documents": len(sources), "evs_canon": 0, "evs_canon_modulo_embedded": 0, "excluded_by_clause": {},
           "excluded_by_kind": {}, "canon_by_kind": {}, "excluded_documents": [], "clause_fired_but_tree_canonical": 0,
           "with_added_cdata": 0, "with_embedded": 0}
    for (k, d, ev, b), o in zip(sources, ko):
        kk = k.split("(")[0]
        if o is None or not o.startswith("K "):
            disagreements.append({"kind": "clause-driver:" + k, "doc_hex": d.hex()[:2000], "events": ev[:1500], "c": "", "model": str(o)})
            continue
        k_all, k_none = (int(x) for x in o.split()[1:3])
        has_emb = " R " in (" " + b)
        if has_emb:
            src["with_embedded"] += 1
        if k_all == 0:
            src["evs_canon_modulo_embedded"] += 1
            if has_emb and not canon_all_of.get(b, False):
                disagreements.append({"kind": "image-canonical-embedded:" + k, "doc_hex": d.hex()[:2000], "events": ev[:1500], "c": b[:1500], "model": o,
                                      "what": "no clause of evs_canon (every embedded tree accepted) is violated but the C's tree does not satisfy root_canon"})
        if k_none == 0:
            src["evs_canon"] += 1
            src["canon_by_kind"][kk] = src["canon_by_kind"].get(kk, 0) + 1
            if not canon_of.get(b, False):
                disagreements.append({"kind": "image-canonical:" + k, "doc_hex": d.hex()[:2000], "events": ev[:1500], "c": b[:1500], "model": o,
                                      "what": "no clause of evs_canon is violated but the C's tree does not satisfy root_canon"})
        else:
            cl = str(k_none)
            src["excluded_by_clause"][cl] = src["excluded_by_clause"].get(cl, 0) + 1
            src["excluded_by_kind"].setdefault(kk, {})
            src["excluded_by_kind"][kk][cl] = src["excluded_by_kind"][kk].get(cl, 0) + 1
            if len(src["excluded_documents"]) < 60 and (kk in ("corpus",) or src["excluded_by_kind"][kk][cl] <= 2):
                src["excluded_documents"].append({"kind": k, "clause": k_none, "clause_embedded_accepted": k_all,
                                                  "file": corpus_name.get(hashlib.sha256(d).digest(), ""), "doc": d[:120].decode("latin-1")})
            if canon_of.get(b, False):
                src["clause_fired_but_tree_canonical"] += 1
    dist["source_documents"] = src
    return {"evaluations": len(todo) + len(sources), "disagreements": disagreements, "samples": [{"tree": b[:200], "events": ev[:200]} for b, ev in todo[:6]],
            "distribution": dist}


def main(argv):
    quick = "--thorough" not in argv
    seed = 1
    if "--seed" in argv:
        seed = int(argv[argv.index("--seed") + 1])
    extra = []
    if "--hex" in argv:
        extra = [("cli", bytes.fromhex(argv[argv.index("--hex") + 1]))]
    if "--inverse" in argv:
        r = correspond_inverse(seed, quick)
        for d in r["disagreements"][:20]:
            print("DISAGREEMENT kind=%s\n  events= %s\n  C     = %s\n  tree  = %s" % (d["kind"], d["events"][:500], d["c"][:500], d["model"][:500]))
        print("evaluations=%d disagreements=%d distribution=%s" % (r["evaluations"], len(r["disagreements"]), r["distribution"]))
        return 1 if r["disagreements"] else 0
    if "--replay" in argv:
        r = correspond_replay(seed, quick)
        r.setdefault("soft_error_code_differences", 0)
        for d in r["disagreements"][:40]:
            print("DISAGREEMENT kind=%s\n  events= %s\n  C     = %s\n  model = %s" % (d["kind"], d["events"][:400], d["c"][:400], d["model"][:400]))
        print("evaluations=%d disagreements=%d distribution=%s" % (r["evaluations"], len(r["disagreements"]), r["distribution"]))
        return 1 if r["disagreements"] else 0
    if "--conv" in argv:
        ot = OPTION_TUPLES if extra else []
        r = correspond_conv(seed, quick, extra_cases=[("cli", d, t) for _, d in extra for t in ot], only_extra=bool(extra),
                            strict_codes="--strict-codes" in argv)
    else:
        r = correspond(seed, quick, extra_cases=extra, only_extra=bool(extra), strict_codes="--strict-codes" in argv)
    for d in r["disagreements"][:40]:
        print("DISAGREEMENT kind=%s%s\n  doc   = %s\n  hex   = %s\n  C     = %s\n  model = %s%s" % (
            d["kind"], (" options(v,kw,st,an)=%s" % (d["options"],)) if "options" in d else "", d.get("doc", "")[:300].replace("\n", "\\n"), d["doc_hex"][:600], d["c"][:600], d["model"][:600],
            ("\n  stderr= " + d["stderr"][-600:]) if d.get("stderr") else ""))
    print("evaluations=%d disagreements=%d soft=%d distribution=%s" % (r["evaluations"], len(r["disagreements"]), r["soft_error_code_differences"], r["distribution"]))
    return 1 if r["disagreements"] else 0


if __name__ == "__main__":
    sys.exit(main(sys.argv[1:]))
