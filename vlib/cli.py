"""C20 support: build the two command-line tools from the current tree, run one invocation in a scratch
directory, classify what it printed, and an independent oracle (python's own getopt + the library
called in-process by harness/c20_lib.c)."""
import getopt
import hashlib
import os
import re
import shutil
import subprocess

from vlib import common

TOOLS = {"w2x": "wbxml2xml", "x2w": "xml2wbxml"}
OPTSTR = {"w2x": "kh?o:m:i:l:c:", "x2w": "nkah?o:v:"}


def hx(b):
    return b.hex() if b else "-"


def unhx(s):
    return b"" if s == "-" else bytes.fromhex(s)


# ----------------------------------------------------------------------------------------------
# build
# ----------------------------------------------------------------------------------------------

def build_tools(flavour):
    """flavour 'att': tools/attgetopt.c (FOUND_POSIX_GETOPT undefined); 'posix': glibc getopt, which is
    what CMake selects on this platform.  Same compiler flags as the library (ASan+UBSan)."""
    d = common.build_lib("asan")
    inc = os.path.join(d, "c20-" + flavour)
    os.makedirs(os.path.join(inc, "tools"), exist_ok=True)
    common.write_if_changed(os.path.join(inc, "tools", "config.h"),
                            "#ifndef WBXML_TOOLS_CONFIG_H\n#define WBXML_TOOLS_CONFIG_H\n%s\n#endif\n" %
                            ("#define FOUND_POSIX_GETOPT" if flavour == "posix" else "/* #undef FOUND_POSIX_GETOPT */"))
    out = {}
    with common.Lock("c20-tools-" + flavour):
        for t, name in TOOLS.items():
            # the name carries the recipe, so that a binary made with another include order is never reused
            recipe = hashlib.sha256(("v2|-I-first|" + flavour + "|" + " ".join(common.cflags("asan"))).encode()).hexdigest()[:10]
            exe = os.path.join(inc, "%s-%s" % (name, recipe))
            out[t] = exe
            if os.path.exists(exe):
                continue
            srcs = [os.path.join(common.REPO, "tools", name + "_tool.c")]
            if flavour == "att":
                srcs.append(os.path.join(common.REPO, "tools", "attgetopt.c"))
            # our tools/config.h must win over the one common._gen_config puts under <build>/inc (always the glibc flavour)
            cmd = ["gcc", "-I" + inc] + common.cflags("asan") + srcs + [os.path.join(d, "libwbxml.a"), "-lexpat", "-o", exe + (".tmp%d" % os.getpid())]
            rc, o, e = common.sh(cmd)
            if rc != 0:
                raise common.BuildError("tool build failed: %s\n%s" % (name, e[-3000:]))
            os.rename(exe + (".tmp%d" % os.getpid()), exe)
    return out


def build_lib_harness():
    d = common.build_lib("asan")
    inc = os.path.join(d, "c20-posix")
    os.makedirs(os.path.join(inc, "tools"), exist_ok=True)
    common.write_if_changed(os.path.join(inc, "tools", "config.h"),
                            "#ifndef WBXML_TOOLS_CONFIG_H\n#define WBXML_TOOLS_CONFIG_H\n#define FOUND_POSIX_GETOPT\n#endif\n")
    return common.build_harness("c20_lib", extra=("-I" + inc, "-I" + os.path.join(common.REPO, "tools")))


# ----------------------------------------------------------------------------------------------
# one invocation
# ----------------------------------------------------------------------------------------------

RUNROOT = os.path.join(common.BUILD, "c20run", str(os.getpid()))     # private to this process


def snapshot(root):
    snap = {}
    for dp, dns, fns in os.walk(root):
        for f in fns:
            p = os.path.join(dp, f)
            rel = os.path.relpath(p, root)
            try:
                with open(p, "rb") as fh:
                    snap[rel] = fh.read()
            except OSError:
                snap[rel] = None
        for dn in dns:
            snap[os.path.relpath(os.path.join(dp, dn), root) + "/"] = b""
    return snap


def run_case(exes, case, idx):
    """case: dict(tool, fl, argv0 (bytes), args [bytes], files {name: bytes}, dirs [name], ro [name],
    stdin: bytes | 'DIR').  Returns observation dict."""
    wd = os.path.join(RUNROOT, "%d" % idx)
    shutil.rmtree(wd, ignore_errors=True)
    os.makedirs(wd)
    try:
        wdb = os.fsencode(wd)
        for dn in case.get("dirs", []):
            os.makedirs(os.path.join(wdb, dn), exist_ok=True)
        for fn, data in case.get("files", {}).items():
            with open(os.path.join(wdb, fn), "wb") as fh:
                fh.write(data)
        for fn in case.get("ro", []):
            os.chmod(os.path.join(wdb, fn), 0o444)
        before = snapshot(wd)
        exe = exes[case["fl"]][case["tool"]]
        argv = [case["argv0"]] + list(case["args"])
        kw = {}
        fd = None
        wfd = None
        if case["stdin"] == "DIR":
            fd = os.open(wd, os.O_RDONLY)
            kw["stdin"] = fd
        elif isinstance(case["stdin"], tuple):
            # ("NBPIPE", data): a non-blocking pipe that holds `data` while its write end stays open: fread delivers the
            # data, then read() fails with EAGAIN and the stream's error flag is set — a read error in mid-stream.
            # O_NONBLOCK is set before exec and the data is already in the pipe: no timing dependence.
            fd, wfd = os.pipe()
            os.set_blocking(fd, False)
            os.set_blocking(wfd, False)
            if case["stdin"][1]:
                os.write(wfd, case["stdin"][1][:60000])
            kw["stdin"] = fd
        else:
            kw["input"] = case["stdin"]
        try:
            p = subprocess.run(argv, executable=exe, cwd=wd, stdout=subprocess.PIPE, stderr=subprocess.PIPE,
                               env=common.run_env(), timeout=120, **kw)
            rc, out, err, to = p.returncode, p.stdout, p.stderr, False
        except subprocess.TimeoutExpired as e:
            rc, out, err, to = -999, e.stdout or b"", e.stderr or b"", True
        finally:
            if fd is not None:
                os.close(fd)
            if wfd is not None:
                os.close(wfd)
        after = snapshot(wd)
        changed = {}
        for k in set(before) | set(after):
            if before.get(k, "ABSENT") != after.get(k, "ABSENT"):
                changed[k] = after.get(k, "ABSENT")
        return {"rc": rc, "stdout": out, "stderr": err, "timeout": to, "changed": changed}
    finally:
        shutil.rmtree(wd, ignore_errors=True)


# what the environment answers for a name (computed from the case description, not by running anything)
def in_result(case, name):
    """'FAIL' (fopen fails) | 'ERR' (read error: a directory) | bytes"""
    if name in case.get("files", {}):
        return case["files"][name]
    if name in case.get("dirs", []) or name in (b".", b"..", b"./"):
        return "ERR"
    return "FAIL"


def out_ok(case, name):
    """does fopen(name, "w") succeed?  (run as root: permission bits do not stop it)"""
    if name == b"" or name in case.get("dirs", []) or name in (b".", b"..") or name.endswith(b"/"):
        return False
    if b"/" in name:
        parent = name.rsplit(b"/", 1)[0]
        if parent in case.get("files", {}):
            return False                      # ENOTDIR
        return parent in case.get("dirs", [])
    if name in case.get("ro", []):
        return os.geteuid() == 0
    return True


# ----------------------------------------------------------------------------------------------
# classification of the printed lines
# ----------------------------------------------------------------------------------------------

SAN_RE = re.compile(rb"(ERROR: (Address|Leak|Undefined)Sanitizer|runtime error:|==\d+==ERROR|SUMMARY: \w+Sanitizer)")


def classify(tool, text, helptext):
    """stderr/stdout text (bytes) -> list of class strings (same spelling as the model driver)."""
    name = TOOLS[tool].encode()
    marker = b"\x00HELP\x00\n"
    if helptext:
        text = text.replace(helptext, marker)
    res = []
    if text.endswith(b"\n"):
        text = text[:-1]
    elif text == b"":
        return res
    for line in text.split(b"\n"):
        if line == marker[:-1]:
            res.append("help")
        elif line == name + b" succeeded":
            res.append("succeeded")
        elif line.startswith(name + b" failed: "):
            res.append("failed:" + hx(line[len(name) + 9:]))
        elif line.startswith(b"Failed to open output file: "):
            res.append("openout:" + hx(line[28:]))
        elif line.startswith(b"Failed to open "):
            res.append("openin:" + hx(line[15:]))
        elif line.startswith(b"Error while reading from file "):
            res.append("readerr:" + hx(line[30:]))
        elif line == b"Missing arguments":
            res.append("missing")
        else:
            m = re.match(rb"^(.*): illegal option -- (.)$", line, re.S) or re.match(rb"^(.*): invalid option -- '(.)'$", line, re.S)
            m2 = re.match(rb"^(.*): option requires an argument -- (.)$", line, re.S) or \
                re.match(rb"^(.*): option requires an argument -- '(.)'$", line, re.S)
            if m2:
                res.append("reqarg:%s:%d" % (hx(m2.group(1)), m2.group(2)[0]))
            elif m:
                res.append("illegal:%s:%d" % (hx(m.group(1)), m.group(2)[0]))
            else:
                res.append("other:" + hx(line[:80]))
    return res


# ----------------------------------------------------------------------------------------------
# independent oracle: python's getopt module + own atoi
# ----------------------------------------------------------------------------------------------

def py_atoi(s):
    m = re.match(r"^[ \t\n\v\f\r]*([+-]?)([0-9]*)", s)
    v = int(m.group(2)) if m.group(2) else 0
    if m.group(1) == "-":
        v = -v
    v = max(-(1 << 63), min((1 << 63) - 1, v))
    v &= 0xFFFFFFFF
    return v - (1 << 32) if v >= (1 << 31) else v


def oracle_parse(case, names):
    """-> None (oracle not applicable) | 'help' | dict(opts=..., out=bytes|None, file=bytes|None)
    names(kind, text) resolves -l / -c / -v names through the C's own tables (c20_lib)."""
    args = [a.decode("latin-1") for a in case["args"]]
    if case["fl"] == "att" and any(a.startswith("--") for a in args):
        return None          # the AT&T getopt of the repository does not know "--"; python's does
    try:
        if case["fl"] == "posix":
            opts, rest = getopt.gnu_getopt(args, OPTSTR[case["tool"]])
        else:
            opts, rest = getopt.getopt(args, OPTSTR[case["tool"]])
    except getopt.GetoptError:
        return "help"
    if any(o in ("-h", "-?") for o, _ in opts):
        return "help"
    out = None
    if case["tool"] == "w2x":
        gen, lang, cs, indent, keep = 1, 0, 0, 0, 0
        for o, v in opts:
            if o == "-k":
                keep = 1
            elif o == "-i":
                indent = py_atoi(v) & 0xFF
            elif o == "-l":
                lang = names("lang", v)
            elif o == "-c":
                cs = names("charset", v)
            elif o == "-m":
                a = py_atoi(v)
                gen = a if a in (0, 1, 2) else 1
            elif o == "-o":
                out = v.encode("latin-1")
        o = "w:%d:%d:%d:%d:%d" % (gen, lang, cs, indent, keep)
    else:
        ver, keep, strtbl, anon = 3, 0, 1, 0
        for o, v in opts:
            if o == "-v":
                ver = names("version", v)
            elif o == "-n":
                strtbl = 0
            elif o == "-k":
                keep = 1
            elif o == "-a":
                anon = 1
            elif o == "-o":
                out = v.encode("latin-1")
        o = "x:%d:%d:%d:%d" % (ver, keep, strtbl, anon)
    return {"opts": o, "out": out, "file": rest[0].encode("latin-1") if rest else None}


def lib_line(opts, data):
    f = opts.split(":")
    if f[0] == "w":
        return "w2x %s %s %s %s %s %s" % (f[1], f[2], f[3], f[4], f[5], hx(data))
    return "x2w %s %s %s %s %s" % (f[1], f[2], f[3], f[4], hx(data))


def case_key(case):
    h = hashlib.sha256()
    h.update(repr((case["tool"], case["fl"], case["argv0"], case["args"], sorted(case.get("files", {}).items()),
                   case.get("dirs"), case.get("ro"), case["stdin"])).encode())
    return h.hexdigest()[:16]


def case_json(case):
    return {"tool": case["tool"], "fl": case["fl"], "argv0": hx(case["argv0"]), "args": [hx(a) for a in case["args"]],
            "args_text": [a.decode("latin-1") for a in case["args"]],
            "files": {k.decode("latin-1"): hx(v) for k, v in case.get("files", {}).items()},
            "dirs": [d.decode("latin-1") for d in case.get("dirs", [])], "ro": [d.decode("latin-1") for d in case.get("ro", [])],
            "stdin": "DIR" if case["stdin"] == "DIR" else ("NBPIPE:" + hx(case["stdin"][1]) if isinstance(case["stdin"], tuple) else hx(case["stdin"])),
            "kind": case.get("kind", "")}


def case_from_json(j):
    return {"tool": j["tool"], "fl": j["fl"], "argv0": unhx(j["argv0"]), "args": [unhx(a) for a in j["args"]],
            "files": {k.encode("latin-1"): unhx(v) for k, v in j.get("files", {}).items()},
            "dirs": [d.encode("latin-1") for d in j.get("dirs", [])], "ro": [d.encode("latin-1") for d in j.get("ro", [])],
            "stdin": "DIR" if j["stdin"] == "DIR" else (("NBPIPE", unhx(j["stdin"][7:])) if j["stdin"].startswith("NBPIPE:") else unhx(j["stdin"])),
            "kind": j.get("kind", "replay")}
