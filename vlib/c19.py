"""C19 — generators, the plain-sequence oracle (python, independent of the Coq transcription) and the
lock-step runner for buffer / list operation sequences.

A *sequence* is a list of operation lines (protocol of harness/c19_harness.c); it starts with
`new`/`sta` (buffers) or `lnew` (lists) and is therefore self-contained.  Sequences are run in blocks:
one process of the harness and one of the model driver per block, one answer line per operation line.
"""
import base64
import re
import subprocess

from vlib import common
from vlib.common import Rng

WS = b" \t\n\x0b\x0c\r"           # isspace() in the "C" locale
B64 = b"ABCDEFGHIJKLMNOPQRSTUVWXYZabcdefghijklmnopqrstuvwxyz0123456789+/"
HEXD = b"0123456789abcdefABCDEF"
HUGE = [0xFFFFFFFF, 0xFFFFFFFE, 0x80000000, 0x7FFFFFFF, 65536]


def hx(b):
    return bytes(b).hex() if b else "-"


def unhx(s):
    return b"" if s == "-" else bytes.fromhex(s)


def cstr(b):
    i = b.find(b"\0")
    return b if i < 0 else b[:i]


def mb(v):
    out = [v & 0x7F]
    v >>= 7
    while v:
        out.insert(0, 0x80 | (v & 0x7F))
        v >>= 7
    return bytes(out)


def sign(x):
    return -1 if x < 0 else (1 if x > 0 else 0)


def hexval(c):
    if 48 <= c <= 57:
        return c - 48
    if 97 <= c <= 102:
        return c - 87
    if 65 <= c <= 70:
        return c - 55
    return 0


def b64_lenient(t):
    """what a base64 reader that stops at the first non-alphabet character delivers: the sextets of
    the longest alphabet prefix, as whole octets (python's decoder on the padded prefix, cut)."""
    n = 0
    while n < len(t) and t[n] in B64:
        n += 1
    p = t[:n]
    k = (6 * n) // 8
    return base64.b64decode(p + b"A" * (-n % 4))[:k]


# ----------------------------------------------------------------------------------------------
# the oracle: a buffer is a python bytes object plus the static mark
# ----------------------------------------------------------------------------------------------

MUTATING = {"set", "ins", "insc", "app", "appd", "appc", "appch", "appmb", "del", "shrink", "strip", "nosp",
            "h2b", "b2h", "b64d", "b64e", "rtz"}


def oracle(state, t):
    """state = (bytes, static); t = token list of one operation line.
    Returns (new_state, return-value string).  Plain sequence semantics only."""
    s, st = state
    op = t[0]
    if op == "new":
        d, blk = unhx(t[1]), int(t[2])
        # sizes are 32 bits wide: a non-empty string whose len + 1 + malloc_block (or malloc_block + 1) does not fit is refused
        if d and (blk >= 0xFFFFFFFF or len(d) >= 0xFFFFFFFF or (blk < len(d) and len(d) + 1 + blk >= 1 << 32)):
            return state, "null"
        return (d, False), "v"
    if op == "sta":
        return (unhx(t[1]), True), "v"
    if op == "dup":
        return (s, False), "v"
    if op == "len":
        return state, "len %d" % len(s)
    if op == "get":
        p = int(t[1])
        return state, ("some %d" % s[p] if p < len(s) else "none")
    if op == "cmp" or op == "cmpc":
        o = unhx(t[1])
        if op == "cmpc":
            o = cstr(o)
        return state, "cmp %d" % ((s > o) - (s < o))
    if op == "words":
        ws = re.findall(rb"[^ \t\n\x0b\x0c\r]+", s)
        return state, "words " + (",".join(hx(w) for w in ws) if ws else "none")
    if op == "schr":
        ch, p = int(t[1]), int(t[2])
        i = s.find(bytes([ch]), p) if p < len(s) else -1
        return state, ("some %d" % i if i >= 0 else "none")
    if op == "srch" or op == "srchc":
        nd, p = unhx(t[1]), int(t[2])
        if op == "srchc":
            nd = cstr(nd)
        if not nd:
            return state, "some 0"          # documented: the empty string is always found (at 0)
        i = s.find(nd, p) if p < len(s) else -1
        return state, ("some %d" % i if i >= 0 else "none")
    if op == "onlyws":
        return state, ("T" if all(c in WS for c in s) else "F")
    # ---- mutating operations
    if st:
        return state, ("v" if op == "nosp" else "F")
    if op == "set":
        p, ch = int(t[1]), int(t[2])
        if p >= len(s):
            return state, "F"
        return (s[:p] + bytes([ch]) + s[p + 1:], False), "T"
    if op == "ins" or op == "insc":
        d, p = unhx(t[1]), int(t[2])
        if op == "insc":
            d = cstr(d)
        if p > len(s) or not d:
            return state, "F"               # out of range, or nothing to insert: FALSE and no effect
        return (s[:p] + d + s[p:], False), "T"
    if op in ("app", "appd", "appc"):
        d = unhx(t[1])
        if op == "appc":
            d = cstr(d)
        return (s + d, False), "T"
    if op == "appch":
        return (s + bytes([int(t[1])]), False), "T"
    if op == "appmb":
        return (s + mb(int(t[1])), False), "T"
    if op == "del":
        p, n = int(t[1]), int(t[2])
        if p >= len(s) or n == 0:
            return state, "F"
        assert p + n <= len(s), "generator produced an out-of-contract delete"
        return (s[:p] + s[p + n:], False), "T"
    if op == "shrink":
        return (re.sub(rb"[ \t\n\x0b\x0c\r]+", b" ", s), False), "T"
    if op == "strip":
        return (s.strip(WS), False), "T"
    if op == "nosp":
        return (bytes(c for c in s if c not in WS), False), "v"
    if op == "h2b":
        return (bytes(hexval(s[2 * i]) * 16 + hexval(s[2 * i + 1]) for i in range(len(s) // 2)), False), "T"
    if op == "b2h":
        h = s.hex().encode()
        return ((h.upper() if t[1] == "U" else h), False), "T"
    if op == "b64d":
        tt = bytes(c for c in s if c not in WS)
        out = b64_lenient(tt)
        if not out:
            return (tt, False), "F"
        return (out, False), "T"
    if op == "b64e":
        if not s:
            return state, "F"
        return (base64.b64encode(s), False), "T"
    if op == "rtz":
        return (s.rstrip(b"\0"), False), "T"
    raise ValueError("unknown op " + op)


ALLOCATING = {"new", "sta", "dup", "ins", "insc", "app", "appd", "appc", "appch", "appmb", "b2h", "b64d", "b64e", "words"}
NULL_ON_REFUSAL = {"new", "sta", "dup", "words", "lnew"}


STATS = {"refused": 0, "partial": 0}


def split_prefix(ln):
    """'F2 appd 61' -> ('F2', ['appd', '61']);  no refusal plan -> (None, tokens)"""
    t = ln.split(" ")
    if len(t) > 1 and t[0][0] in "FA" and t[0][1:].isdigit():
        return t[0], t[1:]
    return None, t


def outcomes(state, t, injected):
    """the outcomes the property allows: the plain-sequence result, and - when an allocation of this
    operation may have been refused - 'no effect, FALSE/NULL'.  The two base64 functions may apply partially."""
    exp = oracle(state, t)
    out = [exp]
    if injected and t[0] in ALLOCATING:
        s, st = state
        if t[0] in NULL_ON_REFUSAL:
            out.append((state, "null"))
        elif st:
            pass                                        # a static buffer is refused before any request
        elif t[0] == "b64d":
            out.append(((bytes(c for c in s if c not in WS), False), "F"))
        elif t[0] == "b64e":
            out.append((state, "F"))
            out.append(((b"", False), "F"))             # contents deleted, then the append refused
        else:
            out.append((state, "F"))
    return out


def list_oracle(items, t):
    op = t[0]
    if op == "lnew":
        return [], "v"
    if op == "lapp":
        x = int(t[1])
        return (items, "F") if x == 0 else (items + [x], "T")
    if op == "lins":
        x, p = int(t[1]), int(t[2])
        if x == 0:
            return items, "F"
        if p >= len(items):
            return items + [x], "T"
        return items[:p] + [x] + items[p:], "T"
    if op == "lget":
        i = int(t[1])
        return items, ("some %d" % items[i] if i < len(items) else "none")
    if op == "lext":
        return (items[1:], "some %d" % items[0]) if items else (items, "none")
    if op == "llen":
        return items, "len %d" % len(items)
    raise ValueError(op)


# ----------------------------------------------------------------------------------------------
# generators
# ----------------------------------------------------------------------------------------------

def gen_byte(r):
    k = r.below(16)
    if k < 2:
        return 0
    if k < 7:
        return WS[r.below(6)]
    if k < 9:
        return HEXD[r.below(len(HEXD))]
    if k < 11:
        return B64[r.below(64)]
    if k < 12:
        return r.choice([0x3D, 0x7F, 0x80, 0xFF, 0x01, 0x1F, 0x21])
    if k < 14:
        return r.range(0x61, 0x64)          # a small alphabet so that searches hit
    return r.below(256)


def gen_data(r, lo=0, hi=None):
    if hi is None:
        hi = 12 if r.chance(9, 10) else 40
    n = r.range(lo, hi)
    mode = r.below(8)
    if mode == 0:                           # blank runs of every length between short words
        out = bytearray()
        while len(out) < n:
            out += bytes(WS[r.below(6)] for _ in range(r.range(0, 4)))
            out += bytes(r.range(0x61, 0x63) for _ in range(r.range(0, 3)))
        return bytes(out[:n])
    if mode == 1:
        return bytes(HEXD[r.below(len(HEXD))] for _ in range(n))
    if mode == 2:
        return bytes(B64[r.below(64)] for _ in range(n))
    return bytes(gen_byte(r) for _ in range(n))


def gen_pos(r, n):
    k = r.below(12)
    if k < 2:
        return max(n - 1, 0)
    if k < 4:
        return n
    if k < 6:
        return n + 1
    if k < 7:
        return r.choice(HUGE)
    if k < 8:
        return 0
    return r.below(n + 1)


BUF_OPS = ["len", "get", "set", "ins", "insc", "app", "appd", "appc", "appch", "appmb", "del", "del", "shrink",
           "shrink", "strip", "strip", "nosp", "cmp", "cmpc", "words", "schr", "srch", "srch", "srchc", "onlyws",
           "h2b", "b2h", "b64d", "b64e", "rtz", "dup", "new", "sta", "set", "ins", "del"]


def refusal_plan(r, op, nwords=0):
    k = r.below(10)
    if op == "words":
        return r.choice(["F", "A"]) + str(r.range(1, 2 + 3 * nwords))
    if k < 6:
        return "F1"
    if k < 8:
        return "F2"
    if k < 9:
        return "A1"
    return r.choice(["A2", "F3"])


def gen_buffer_seq(r, inject=False):
    """one buffer operation sequence (list of lines); positions are chosen against the oracle's state.
    inject: allocating operations get a refusal plan (F<k> / A<k>) about every third time; the oracle's state
    then follows the plain result, which is only a guide for choosing positions"""
    n_ops = r.range(1, 60)
    lines = []
    if r.chance(1, 7):
        d = gen_data(r)
        lines.append("sta " + hx(d))
    else:
        d = gen_data(r)
        lines.append("new %s %d" % (hx(d), r.choice([0, 1, 2, 5, 20, 100, len(d), len(d) + 1, max(len(d) - 1, 0)])))
    state, _ = oracle((b"", False), lines[0].split(" "))
    while len(lines) < n_ops:
        s, st = state
        n = len(s)
        op = r.choice(BUF_OPS)
        if op == "new":
            d = gen_data(r)
            # 4294967295: malloc_block + 1 wraps to 0 -> NULL for non-empty data (no other huge value: a block of
            # 4 GiB - k would really be allocated)
            ln = "new %s %d" % (hx(d), r.choice([0, 1, 2, 5, 20, 100, len(d), len(d) + 1, 4294967295]))
        elif op == "sta":
            if not r.chance(1, 3):
                continue
            ln = "sta " + hx(gen_data(r))
        elif op in ("dup", "len", "shrink", "strip", "nosp", "words", "onlyws", "h2b", "b64d", "rtz"):
            ln = op
        elif op == "b2h":
            if n > 600:
                continue
            ln = "b2h " + r.choice(["U", "L"])
        elif op == "b64e":
            if n > 600:
                continue
            ln = op
        elif op == "get":
            ln = "get %d" % gen_pos(r, n)
        elif op == "set":
            ln = "set %d %d" % (gen_pos(r, n), gen_byte(r))
        elif op in ("ins", "insc"):
            ln = "%s %s %d" % (op, hx(gen_data(r)), gen_pos(r, n))
        elif op in ("app", "appd", "appc"):
            ln = "%s %s" % (op, hx(gen_data(r)))
        elif op == "appch":
            ln = "appch %d" % gen_byte(r)
        elif op == "appmb":
            ln = "appmb %d" % r.choice([0, 127, 128, 16383, 16384, 0xFFFFFFFF, r.below(1 << r.range(1, 32))])
        elif op == "del":
            p = gen_pos(r, n)
            if p >= n:
                k = r.choice([0, 1, 2, n, 0xFFFFFFFF])
            else:
                k = r.choice([0, 1, n - p, max(n - p - 1, 0), r.range(0, n - p)])     # pos + k <= len: the contract
            if st and p < n and p + k > n:
                k = 0
            if inject:
                # the tracked state is only a guess once refusals are in play: keep to counts that are
                # inside the documented contract whatever the real length is
                k = r.choice([0, 1, 1])
            ln = "del %d %d" % (p, k)
        elif op in ("cmp", "cmpc"):
            k = r.below(6)
            if k == 0:
                o = s
            elif k == 1:
                o = s[:r.below(n + 1)]
            elif k == 2:
                o = s + gen_data(r, 1, 3)
            elif k == 3 and n:
                i = r.below(n)
                o = s[:i] + bytes([(s[i] + r.choice([1, 255, 128])) & 255]) + s[i + 1:]
            else:
                o = gen_data(r)
            ln = "%s %s" % (op, hx(o))
        elif op == "schr":
            ch = s[r.below(n)] if n and r.chance(2, 3) else gen_byte(r)
            ln = "schr %d %d" % (ch, gen_pos(r, n))
        elif op in ("srch", "srchc"):
            k = r.below(6)
            if n and k < 3:
                i = r.below(n)
                nd = s[i:i + r.range(1, 4)]
                if k == 2:                   # a near miss: right start, wrong end
                    nd = nd[:-1] + bytes([(nd[-1] + 1) & 255]) if len(nd) > 1 else nd
            elif k == 3:
                nd = b""
            else:
                nd = gen_data(r, 0, 4)
            ln = "%s %s %d" % (op, hx(nd), gen_pos(r, n) if r.chance(1, 2) else r.below(n + 1))
        else:
            raise ValueError(op)
        opname = ln.split(" ", 1)[0]
        if inject and opname in ALLOCATING and r.chance(2, 5):
            nw = len(re.findall(rb"[^ \t\n\x0b\x0c\r]+", s)) if opname == "words" else 0
            lines.append(refusal_plan(r, opname, nw) + " " + ln)
            if opname in ("new", "sta", "dup") or r.chance(1, 2):
                continue                     # assume it was refused: the state the positions aim at is unchanged
        else:
            lines.append(ln)
        state, _ = oracle(state, ln.split(" "))
    return lines


def gen_list_seq(r, inject=False):
    n_ops = r.range(1, 60)
    lines = ["lnew"]
    items = []
    nxt = 1
    while len(lines) < n_ops:
        n = len(items)
        k = r.below(16)
        if k < 5:
            x = 0 if r.chance(1, 15) else nxt
            ln = "lapp %d" % x
        elif k < 10:
            x = 0 if r.chance(1, 15) else nxt
            ln = "lins %d %d" % (x, gen_pos(r, n))
        elif k < 12:
            ln = "lget %d" % gen_pos(r, n)
        elif k < 15:
            ln = "lext"
        else:
            ln = "llen"
        nxt += 1
        if inject and ln.startswith(("lapp", "lins")) and r.chance(1, 3):
            lines.append(r.choice(["F1", "A1", "F2"]) + " " + ln)
            if r.chance(1, 2):
                continue
        elif inject and r.chance(1, 25):
            lines.append(r.choice(["F1", "A1"]) + " lnew")
            continue
        else:
            lines.append(ln)
        items, _ = list_oracle(items, ln.split(" "))
    return lines


# ----------------------------------------------------------------------------------------------
# running and judging
# ----------------------------------------------------------------------------------------------

def run_block(exe, seqs, timeout=1800):
    """feed the sequences to one process; returns (answers per sequence, crash-info or None)."""
    lines = [l for s in seqs for l in s]
    p = subprocess.run([exe], input=("\n".join(lines) + "\n").encode(), stdout=subprocess.PIPE,
                       stderr=subprocess.PIPE, env=common.run_env(), timeout=timeout)
    out = p.stdout.decode("utf-8", "replace").split("\n")
    if out and out[-1] == "":
        out.pop()
    res, k = [], 0
    for s in seqs:
        res.append(out[k:k + len(s)])
        k += len(s)
    crash = None
    if p.returncode != 0 or len(out) != len(lines):
        # the sequence in which the output stops
        k = 0
        bad = None
        for i, s in enumerate(seqs):
            if len(out) < k + len(s):
                bad = i
                break
            k += len(s)
        crash = {"rc": p.returncode, "stderr": p.stderr.decode("utf-8", "replace")[-3000:], "sequence_index": bad,
                 "answered_in_sequence": (len(out) - k) if bad is not None else None}
    return res, crash


def parse_answer(a):
    """'<ret> | <len> <hex> <term> <static>[ FAULT]' -> dict, or None if malformed"""
    if a is None or " | " not in a:
        return None
    ret, _, st = a.partition(" | ")
    f = st.split(" ")
    if len(f) < 4:
        return None
    if f[1] == "NODATA":
        f[1] = "ff" * 0 + "--nodata--"
    return {"ret": ret, "len": int(f[0]), "hex": f[1], "term": f[2], "static": f[3], "extra": f[4:]}


def judge_buffer_seq(seq, c_ans, m_ans):
    """compare one sequence after every operation.
    Returns (oracle_failure or None, correspondence_failure or None, n_mutations)."""
    state = (b"", False)
    ofail = cfail = None
    nmut = 0
    for i, ln in enumerate(seq):
        prefix, t = split_prefix(ln)
        ca = c_ans[i] if i < len(c_ans) else None
        ma = m_ans[i] if i < len(m_ans) else None
        pc = parse_answer(ca)
        if pc is None:
            ofail = ofail or {"step": i, "op": ln, "c": ca, "why": "no answer from the C (crash / sanitizer report)"}
            break
        # the oracle is applied to the C's own previous contents
        why = None
        for ci, (new_state, oret) in enumerate(outcomes(state, t, prefix is not None)):
            exp_hex = hx(new_state[0])
            w = None
            if pc["ret"] != oret:
                w = "return value"
            elif pc["len"] != len(new_state[0]):
                w = "length"
            elif pc["hex"] != exp_hex:
                w = "contents"
            elif pc["static"] != ("1" if new_state[1] else "0"):
                w = "static flag"
            elif pc["term"] != "--" and pc["term"] != "00":
                w = "byte after the contents is not NUL"
            elif (not new_state[1]) and new_state[0] and pc["term"] == "--":
                w = "dynamic non-empty buffer without storage"
            if w is None:
                why = None
                if ci > 0:
                    STATS["refused"] += 1
                    if new_state != state:
                        STATS["partial"] += 1
                break
            why = why or w
        if why and ofail is None:
            new_state, oret = outcomes(state, t, False)[0]
            ofail = {"step": i, "op": ln, "c": ca, "oracle": "%s | %d %s 00 %d" % (oret, len(new_state[0]), hx(new_state[0]), 1 if new_state[1] else 0),
                     "why": why + (" (and not a refusal without effect either)" if prefix else ""), "previous_contents": hx(state[0])}
        if t[0] in MUTATING and pc["hex"] != "--nodata--" and unhx(pc["hex"]) != state[0]:
            nmut += 1
        # model vs C: the whole line, except that the presence of storage (-- against a terminator) is not compared
        if cfail is None and ma != ca:
            pm = parse_answer(ma)
            same = (pm is not None and pm["ret"] == pc["ret"] and pm["len"] == pc["len"] and pm["hex"] == pc["hex"]
                    and pm["static"] == pc["static"] and pm["extra"] == pc["extra"]
                    and (pm["term"] == pc["term"] or "--" in (pm["term"], pc["term"])))
            if not same:
                cfail = {"step": i, "op": ln, "c": ca, "model": ma}
        if ofail is not None:
            break
        # continue from what the C actually holds
        if pc["hex"] == "--nodata--":
            ofail = ofail or {"step": i, "op": ln, "c": ca, "why": "len > 0 but data == NULL"}
            break
        state = (unhx(pc["hex"]), pc["static"] == "1")
    return ofail, cfail, nmut


def judge_list_seq(seq, c_ans, m_ans):
    items = []
    ofail = cfail = None
    nmut = 0
    for i, ln in enumerate(seq):
        prefix, t = split_prefix(ln)
        ca = c_ans[i] if i < len(c_ans) else None
        ma = m_ans[i] if i < len(m_ans) else None
        if ca is None or " | " not in ca:
            ofail = {"step": i, "op": ln, "c": ca, "why": "no answer from the C (crash / sanitizer report)"}
            break
        new_items, oret = list_oracle(items, t)
        exp = "%s | %d %s 1" % (oret, len(new_items), ",".join(map(str, new_items)) if new_items else "-")
        if prefix and t[0] in ("lapp", "lins", "lnew") and ca != exp:
            # a refused element / list: no effect, FALSE (NULL for the list itself)
            new_items, oret = items, ("null" if t[0] == "lnew" else "F")
            STATS["refused"] += 1
            exp = "%s | %d %s 1" % (oret, len(new_items), ",".join(map(str, new_items)) if new_items else "-")
        if ca != exp:
            ofail = {"step": i, "op": ln, "c": ca, "oracle": exp, "why": "list state / return value",
                     "previous_items": items}
            break
        if new_items != items:
            nmut += 1
        if cfail is None and ma != ca:
            cfail = {"step": i, "op": ln, "c": ca, "model": ma}
        items = new_items
    return ofail, cfail, nmut


def shrink(exe, seq, is_list, still_fails):
    """greedy: cut after the failing step, then drop single operations while the failure persists"""
    cur = list(seq)
    changed = True
    rounds = 0
    while changed and rounds < 4:
        changed = False
        rounds += 1
        i = 1
        while i < len(cur):
            cand = cur[:i] + cur[i + 1:]
            if still_fails(cand):
                cur = cand
                changed = True
            else:
                i += 1
    return cur


def c_fails(exe, seq, is_list):
    res, crash = run_block(exe, [seq])
    if crash and crash.get("sequence_index") is not None:
        return True                      # an operation was not answered (a leak report at exit is not C19's matter)
    j = judge_list_seq if is_list else judge_buffer_seq
    o, _, _ = j(seq, res[0], res[0])
    return o is not None


def work_chunk(args):
    """one worker: generate `n` sequences of stream `stream`, run C and model, judge.  Returns a dict."""
    harness, driver, seed, stream, n, list_share = args[:6]
    inject = len(args) > 6 and args[6]
    r = Rng(seed, stream)
    seqs, kinds = [], []
    for _ in range(n):
        if r.below(100) < list_share:
            seqs.append(gen_list_seq(r, inject)); kinds.append(True)
        else:
            seqs.append(gen_buffer_seq(r, inject)); kinds.append(False)
    res = judge_block(harness, driver, seqs, kinds, stream)
    res["injected"] = inject
    return res


def judge_block(harness, driver, seqs, kinds, stream=0):
    c_res, c_crash = run_block(harness, seqs)
    m_res, m_crash = run_block(driver, seqs)
    out = {"stream": stream, "sequences": len(seqs), "ops": sum(len(s) for s in seqs), "oracle_failures": [],
           "corr_failures": [], "nontrivial": 0, "opcount": {}, "samples": [], "spec_pairs": [], "model_crash": m_crash}
    crash_at = {}
    base = 0
    while c_crash and c_crash.get("sequence_index") is not None:
        # rerun the sequences after the crashing one in a fresh process so that they are judged too
        k = base + c_crash["sequence_index"]
        crash_at[k] = c_crash
        if k + 1 >= len(seqs):
            break
        rest, c_crash = run_block(harness, seqs[k + 1:])
        c_res = c_res[:k + 1] + rest
        base = k + 1
    while len(c_res) < len(seqs):
        c_res.append([])
    STATS["refused"] = STATS["partial"] = 0
    for idx, (seq, is_list) in enumerate(zip(seqs, kinds)):
        ca = c_res[idx] if idx < len(c_res) else []
        ma = m_res[idx] if idx < len(m_res) else []
        o, c, nmut = (judge_list_seq if is_list else judge_buffer_seq)(seq, ca, ma)
        if nmut > 0:
            out["nontrivial"] += 1
        for ln in seq:
            pf, tk = split_prefix(ln)
            k = tk[0]
            out["opcount"][k] = out["opcount"].get(k, 0) + 1
            if pf:
                out["refusal_plans"] = out.get("refusal_plans", 0) + 1
        if o:
            if idx in crash_at:
                o["sanitizer_or_crash"] = crash_at[idx]["stderr"]
                o["rc"] = crash_at[idx]["rc"]
            out["oracle_failures"].append({"kind": "list" if is_list else "buffer", "lines": seq, **o})
        if c:
            out["corr_failures"].append({"kind": "list" if is_list else "buffer", "lines": seq, **c})
        if idx < 2:
            out["samples"].append({"lines": seq[:8], "c": ca[:8], "model": ma[:8]})
        if idx < 40 and not is_list and not o:
            # (previous C state, op) pairs for the cross-check of the extracted specification side
            st = (b"", False)
            for ln, a in zip(seq, ca):
                pa = parse_answer(a)
                if pa is None:
                    break
                if split_prefix(ln)[0] is None:
                    out["spec_pairs"].append(("S %s %d %s" % (hx(st[0]), 1 if st[1] else 0, ln), a))
                st = (unhx(pa["hex"]), pa["static"] == "1")
    out["refused"] = STATS["refused"]
    out["partial"] = STATS["partial"]
    return out
