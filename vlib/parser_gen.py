"""Grammar-based generator of WBXML documents (abstract syntax `wdoc`, DESIGN.md §5 C04) over the
regenerated token tables, its serializer (python side, used for field positions; the Coq
`serialize` is the reference), the textual form read by driver/C04_driver.ml, and the malformed
stream (prefixes, field replacements, byte flips).  Shared by props/C04 and props/C13.

wdoc (python):
  doc  = {ver, pub: ('N', num) | ('I', idx), charset: None | int, strtbl: bytes, pis_before: [attr],
          root: elt, pis_after: [attr], lang: id, forced: 0 | id, meta: 0 | mib}
  elt  = {sw: None | page, tag: ('T', tok6) | ('L', idx), attrs: [attr], content: None | [item]}
  item = ('E', elt) | ('S', bytes) | ('R', idx) | ('N', code) | ('O', bytes) | ('X', sw, tok, arg) | ('P', attr)
  attr = {sw: None | page, start: ('T', tok) | ('L', idx), vals: [val]}          (a PI has the same shape)
  val  = ('V', sw, tok) | ('S', bytes) | ('R', idx) | ('N', code) | ('O', bytes) | ('X', sw, tok, arg)
  ext  : tok in 0x40..0x42 -> arg = bytes (EXT_I termstr); 0x80..0x82 -> arg = int (EXT_T index / WV value);
         0xC0..0xC2 -> arg = None
"""

import sys
sys.setrecursionlimit(20000)

WML_LANGS = (1101, 1102, 1103, 1104, 1202)
WV_LANGS = (2301, 2302)
GLOBAL_LOW = (0, 1, 2, 3, 4)


def mb(v):
    out = [v & 0x7F]
    v >>= 7
    while v:
        out.insert(0, 0x80 | (v & 0x7F))
        v >>= 7
    return bytes(out)


class Tables:
    """per-language view of gen.tables_json()"""

    def __init__(self, tj):
        self.langs = {}
        self.order = []
        for l in tj["langs"]:
            def rows(k):
                return tj["tables"][str(l[k])]["rows"] if l[k] is not None and l[k] >= 0 else None
            e = dict(l)
            e["tags_rows"] = rows("tags")
            e["attrs_rows"] = rows("attrs")
            e["vals_rows"] = rows("vals")
            e["exts_rows"] = rows("exts")
            self.langs[l["id"]] = e
            self.order.append(l["id"])

    def first_with_pub(self, num):
        for i in self.order:
            if self.langs[i]["pub_num"] == num:
                return i
        return None


# ---------------------------------------------------------------------------------------------
# serializer (mirrors Spec.serialize) with field positions
# ---------------------------------------------------------------------------------------------

class Ser:
    def __init__(self):
        self.b = bytearray()
        self.fields = []      # (kind, offset, length)

    def u8(self, v):
        self.b.append(v & 0xFF)

    def mbf(self, kind, v):
        e = mb(v)
        self.fields.append((kind, len(self.b), len(e)))
        self.b += e

    def sw(self, p):
        if p is not None:
            self.b += bytes([0, p])

    def ext(self, x):
        _, sw, tok, arg = x
        self.sw(sw)
        self.u8(tok)
        if 0x40 <= tok <= 0x42:
            self.fields.append(("termstr", len(self.b), len(arg) + 1))
            self.b += arg + b"\0"
        elif 0x80 <= tok <= 0x82:
            self.mbf("ext_t", arg)

    def strlike(self, v):
        k = v[0]
        if k == "S":
            self.u8(3)
            self.fields.append(("termstr", len(self.b), len(v[1]) + 1))
            self.b += v[1] + b"\0"
        elif k == "R":
            self.u8(0x83); self.mbf("index", v[1])
        elif k == "N":
            self.u8(2); self.mbf("entity", v[1])
        elif k == "O":
            self.u8(0xC3); self.mbf("opaque_len", len(v[1])); self.b += v[1]
        elif k == "X":
            self.ext(v)
        else:
            raise ValueError(k)

    def attr(self, a):
        if a["start"][0] == "L":
            self.u8(4); self.mbf("index", a["start"][1])
        else:
            self.sw(a["sw"]); self.u8(a["start"][1])
        for v in a["vals"]:
            if v[0] == "V":
                self.sw(v[1]); self.u8(v[2])
            else:
                self.strlike(v)

    def pi(self, p):
        self.u8(0x43); self.attr(p); self.u8(1)

    def elt(self, e):
        bits = (0x80 if e["attrs"] else 0) | (0x40 if e["content"] is not None else 0)
        self.sw(e["sw"])
        if e["tag"][0] == "L":
            self.u8(4 | bits); self.mbf("index", e["tag"][1])
        else:
            self.u8(e["tag"][1] | bits)
        if e["attrs"]:
            for a in e["attrs"]:
                self.attr(a)
            self.u8(1)
        if e["content"] is not None:
            for it in e["content"]:
                if it[0] == "E":
                    self.elt(it[1])
                elif it[0] == "P":
                    self.pi(it[1])
                elif it[0] == "W":           # Nokia: a bare switchPage as content (not in wf documents)
                    self.b += bytes([0, it[1]])
                else:
                    self.strlike(it)
            self.u8(1)


def serialize(doc):
    """returns (bytes, fields, root_end) — root_end = offset just after the root element"""
    s = Ser()
    s.u8(doc["ver"])
    if doc["pub"][0] == "I":
        s.u8(0); s.mbf("pubidx", doc["pub"][1])
    else:
        s.mbf("pubnum", doc["pub"][1])
    if doc["charset"] is not None:
        s.mbf("charset", doc["charset"])
    s.mbf("strtbl_len", len(doc["strtbl"]))
    s.strtbl_off = len(s.b)
    s.b += doc["strtbl"]
    for p in doc["pis_before"]:
        s.pi(p)
    s.elt(doc["root"])
    root_end = len(s.b)
    for p in doc["pis_after"]:
        s.pi(p)
    return bytes(s.b), s.fields, root_end


# ---------------------------------------------------------------------------------------------
# textual form for the driver (prefix notation, space separated)
# ---------------------------------------------------------------------------------------------

def hx(b):
    return bytes(b).hex() if b else "-"


def _sw(p):
    return "-" if p is None else str(p)


def t_ext(x, out):
    _, sw, tok, arg = x
    if 0x40 <= tok <= 0x42:
        out.append("XI %s %d %s" % (_sw(sw), tok - 0x40, hx(arg)))
    elif 0x80 <= tok <= 0x82:
        out.append("XT %s %d %d" % (_sw(sw), tok - 0x80, arg))
    else:
        out.append("XE %s %d" % (_sw(sw), tok - 0xC0))


def t_strlike(v, out):
    k = v[0]
    if k == "S":
        out.append("S " + hx(v[1]))
    elif k == "R":
        out.append("R %d" % v[1])
    elif k == "N":
        out.append("N %d" % v[1])
    elif k == "O":
        out.append("O " + hx(v[1]))
    else:
        t_ext(v, out)


def t_attr(a, out):
    if a["start"][0] == "L":
        out.append("AL %d" % a["start"][1])
    else:
        out.append("AT %s %d" % (_sw(a["sw"]), a["start"][1]))
    out.append(str(len(a["vals"])))
    for v in a["vals"]:
        if v[0] == "V":
            out.append("V %s %d" % (_sw(v[1]), v[2]))
        else:
            t_strlike(v, out)


def t_elt(e, out):
    if e["tag"][0] == "L":
        out.append("EL %d" % e["tag"][1])
    else:
        out.append("ET %s %d" % (_sw(e["sw"]), e["tag"][1]))
    out.append(str(len(e["attrs"])))
    for a in e["attrs"]:
        t_attr(a, out)
    if e["content"] is None:
        out.append("-")
    else:
        out.append("C %d" % len(e["content"]))
        for it in e["content"]:
            if it[0] == "E":
                t_elt(it[1], out)
            elif it[0] == "P":
                out.append("P"); t_attr(it[1], out)
            else:
                t_strlike(it, out)


def wdoc_text(doc):
    out = ["%d" % doc["ver"], ("I %d" if doc["pub"][0] == "I" else "N %d") % doc["pub"][1],
           "-" if doc["charset"] is None else str(doc["charset"]), hx(doc["strtbl"]), str(len(doc["pis_before"]))]
    for p in doc["pis_before"]:
        t_attr(p, out)
    t_elt(doc["root"], out)
    out.append(str(len(doc["pis_after"])))
    for p in doc["pis_after"]:
        t_attr(p, out)
    return " ".join(out)


# ---------------------------------------------------------------------------------------------
# generator
# ---------------------------------------------------------------------------------------------

WORDS = [b"a", b"x", b"ab", b"id", b"abc", b"name", b"value", b"http://", b"www.", b".com", b"xmlns", b"text/plain",
         b"Hello", b"19990625", b"42", b"b64", b"caf\xc3\xa9", b"\xe2\x82\xac", b"\xf0\x9f\x98\x80", b" ", b"  a  b ", b"<&>\"'", b"\x7f", b"\xff\xfe", b"$(v)"]

ENTITY_CODES = [1, 9, 10, 32, 38, 60, 65, 0x7F, 0x80, 0xA0, 0xE9, 0x7FF, 0x800, 0xFFF, 0x1000, 0x20AC, 0xD7FF, 0xE000, 0xFFFF, 0x10000,
                0x3FFFF, 0x40000, 0x10FFFF]


class Gen:
    def __init__(self, rng, T, lang_id, max_depth=4, max_items=4, wf=True):
        self.r = rng
        self.T = T
        self.L = T.langs[lang_id]
        self.lang = lang_id
        self.max_depth = max_depth
        self.max_items = max_items
        self.wf = wf
        self.tagcp = 0
        self.attrcp = 0
        self.stats = {}

    def count(self, k):
        self.stats[k] = self.stats.get(k, 0) + 1

    # -- strings -------------------------------------------------------------------
    def word(self):
        r = self.r
        if r.chance(3, 4):
            w = r.choice(WORDS)
            if r.chance(1, 3):
                w = w + r.choice(WORDS)
            return w
        return bytes(r.range(1, 255) for _ in range(r.range(0, 12)))

    def make_strtbl(self):
        r = self.r
        k = r.choice([0, 0, 1, 2, 3, 5])
        entries = [self.word() for _ in range(k)]
        pub = self.L["pub_text"]
        self.pub_off = None
        if pub is not None and (self.need_pubidx or r.chance(1, 6)):
            entries.insert(r.below(len(entries) + 1), pub.encode())
        tb = bytearray()
        self.entry_offs = []
        for e in entries:
            if pub is not None and e == pub.encode() and self.pub_off is None:
                self.pub_off = len(tb)
            self.entry_offs.append(len(tb))
            tb += e + b"\0"
        self.unterminated = False
        if tb and r.chance(1, 8) and not self.strict:
            tb = tb[:-1]             # unterminated table: the parser pads it
            self.unterminated = True
            if not tb:
                self.entry_offs = []
        self.strtbl = bytes(tb)

    def index(self):
        """a valid string-table index: entry start (mostly) or any offset (mid-string, on a NUL)"""
        n = len(self.strtbl)
        if n == 0:
            return None
        if self.strict or self.r.chance(2, 3):
            self.count("idx_entry")
            return self.r.choice(self.entry_offs)
        self.count("idx_any")
        return self.r.below(n)

    # -- pieces --------------------------------------------------------------------
    def ext(self, space):
        """an extension the language defines, or None"""
        r = self.r
        sw = None
        if r.chance(1, 8) and not self.strict:
            # [switchPage] extension: the page of the space the extension appears in changes
            if space == "tag":
                sw = r.choice(self.L["tags_rows"])[1]; self.tagcp = sw
            elif self.L["attrs_rows"]:
                sw = r.choice(self.L["attrs_rows"])[2]; self.attrcp = sw
            if sw is not None:
                self.count("ext_switch")
        if self.lang in WML_LANGS:
            k = r.below(3)
            c = r.below(7)
            self.count("ext_wml")
            if c < 3:
                return ("X", sw, 0x40 + k, self.word())
            if c < 6:
                i = self.index()
                if i is None:
                    return ("X", sw, 0x40 + k, self.word())
                return ("X", sw, 0x80 + k, i)
            return ("X", sw, 0xC0 + k, None)
        if self.lang in WV_LANGS and self.L["exts_rows"]:
            self.count("ext_wv")
            row = r.choice(self.L["exts_rows"])
            return ("X", sw, 0x80, row[1])
        return None

    def strlike(self, space):
        r = self.r
        c = r.below(12)
        if c < 4:
            self.count("str_i")
            return ("S", self.word())
        if c < 7:
            i = self.index()
            if i is not None:
                self.count("str_t")
                return ("R", i)
            return ("S", self.word())
        if c < 9:
            self.count("entity")
            return ("N", r.choice(ENTITY_CODES) if r.chance(3, 4) else r.range(1, 0x10FFFF))
        if c < 11:
            self.count("opaque")
            return ("O", self.opaque_payload(space))
        x = self.ext(space)
        return x if x is not None else ("S", self.word())

    def opaque_payload(self, space):
        r = self.r
        c = r.below(6)
        if c == 0:
            return bytes(r.below(256) for _ in range(6))        # WV date-time size
        if c == 1:
            return bytes(r.below(256) for _ in range(r.range(1, 4)))  # WV integer sizes
        if c == 2:
            return bytes([0x19, 0x99, 0x06, 0x25, 0x12, 0x30, 0x00][:r.range(4, 7)])
        return bytes(r.below(256) for _ in range(r.range(1 if self.nonempty_opaque else 0, 10)))

    def attr(self, pi=False):
        r = self.r
        rows = self.L["attrs_rows"]
        a = {"sw": None, "start": None, "vals": []}
        if rows and r.chance(5, 6):
            row = r.choice(rows)
            if row[2] != self.attrcp:
                a["sw"] = row[2]; self.attrcp = row[2]; self.count("attr_switch")
            elif r.chance(1, 12):
                a["sw"] = row[2]
            a["start"] = ("T", row[3])
            self.count("attr_tok")
            if not self.wf and r.chance(1, 8):
                a["start"] = ("T", r.range(5, 0x7F)); self.count("attr_random")
        else:
            i = self.index()
            if i is None:
                if not rows:
                    return None
                row = r.choice(rows)
                if row[2] != self.attrcp:
                    a["sw"] = row[2]; self.attrcp = row[2]
                a["start"] = ("T", row[3])
            else:
                a["start"] = ("L", i); self.count("attr_lit")
        for _ in range(r.choice([0, 1, 1, 1, 2, 3])):
            vrows = self.L["vals_rows"]
            if vrows and r.chance(1, 3):
                row = r.choice(vrows)
                sw = None
                if row[1] != self.attrcp:
                    sw = row[1]; self.attrcp = row[1]; self.count("val_switch")
                a["vals"].append(("V", sw, row[2])); self.count("val_tok")
            elif not self.wf and r.chance(1, 8):
                a["vals"].append(("V", None, r.range(0x85, 0xFF))); self.count("val_random")
            else:
                a["vals"].append(self.strlike("attr"))
        return a

    def elt(self, depth):
        r = self.r
        rows = self.L["tags_rows"]
        e = {"sw": None, "tag": None, "attrs": [], "content": None}
        i = self.index() if r.chance(1, 8) else None
        if i is not None:
            e["tag"] = ("L", i); self.count("tag_lit")
        else:
            row = r.choice(rows)
            if row[1] != self.tagcp:
                e["sw"] = row[1]; self.tagcp = row[1]; self.count("tag_switch")
            elif r.chance(1, 16):
                e["sw"] = row[1]
            e["tag"] = ("T", row[2]); self.count("tag_tok")
            if not self.wf and r.chance(1, 6):
                e["tag"] = ("T", r.range(5, 63)); self.count("tag_random")
                if r.chance(1, 3):
                    e["sw"] = r.below(256); self.tagcp = e["sw"]
        if r.chance(1, 3):
            for _ in range(r.range(1, 3)):
                a = self.attr()
                if a is not None:
                    e["attrs"].append(a)
        if r.chance(4, 5):
            e["content"] = []
            n = r.range(0, self.max_items)
            for _ in range(n):
                c = r.below(10)
                if not self.wf and r.chance(1, 12):
                    pg = r.choice([0, 1, r.below(256)])
                    e["content"].append(("W", pg)); self.tagcp = pg; self.count("content_switch")
                elif c < 4 and depth < self.max_depth:
                    e["content"].append(("E", self.elt(depth + 1)))
                elif c == 9 and r.chance(1, 3):
                    p = self.attr(pi=True)
                    if p is not None:
                        e["content"].append(("P", p)); self.count("pi")
                else:
                    e["content"].append(self.strlike("tag"))
        return e

    def doc(self, strict=False):
        r = self.r
        self.strict = strict
        self.nonempty_opaque = self.lang in (1801, 1901, 2001, 2101, 2201)
        L = self.L
        d = {"lang": self.lang, "forced": 0, "meta": 0}
        d["ver"] = r.choice([0, 1, 2, 3, 3, 3])
        usable_num = L["pub_num"] != 1 and self.T.first_with_pub(L["pub_num"]) == self.lang
        self.need_pubidx = False
        if usable_num and r.chance(4, 5):
            mode = "num"
        elif L["pub_text"] is not None and (not usable_num or r.chance(1, 2)):
            mode = "idx"; self.need_pubidx = True
        else:
            mode = "forced"
        if strict and mode == "forced":
            mode = "num" if usable_num else ("idx" if L["pub_text"] is not None else "forced")
            self.need_pubidx = (mode == "idx")
        self.make_strtbl()
        if mode == "num":
            d["pub"] = ("N", L["pub_num"])
        elif mode == "idx":
            d["pub"] = ("I", self.pub_off)
        else:
            d["forced"] = self.lang
            d["pub"] = r.choice([("N", 1), ("N", L["pub_num"]), ("N", 0x7F), ("I", 0)]) if not strict else ("N", L["pub_num"])
        if d["ver"] == 0:
            d["charset"] = None
        else:
            d["charset"] = r.choice([106, 106, 106, 3, 3, 0])
        if d["charset"] in (None, 0) and r.chance(1, 4) and not strict:
            d["meta"] = r.choice([3, 106])
        d["strtbl"] = self.strtbl
        d["pis_before"] = []
        d["pis_after"] = []
        if r.chance(1, 10):
            p = self.attr(pi=True)
            if p is not None:
                d["pis_before"].append(p); self.count("pi_before")
        d["root"] = self.elt(0)
        if r.chance(1, 10):
            p = self.attr(pi=True)
            if p is not None:
                d["pis_after"].append(p); self.count("pi_after")
        d["stats"] = self.stats
        d["mode"] = mode
        return d


def systematic_docs(T):
    """every tag / attribute start / attribute value / extension row of every language at least once"""
    docs = []
    for lid in T.order:
        L = T.langs[lid]
        usable_num = L["pub_num"] != 1 and T.first_with_pub(L["pub_num"]) == lid
        base = {"lang": lid, "forced": 0 if usable_num else lid, "meta": 0, "ver": 3, "pub": ("N", L["pub_num"]), "charset": 106,
                "strtbl": b"", "pis_before": [], "pis_after": [], "stats": {}, "mode": "num" if usable_num else "forced"}
        rows = L["tags_rows"]
        # all tags as children of the first tag; switch pages where the page changes
        cp = rows[0][1]
        root = {"sw": cp if cp else None, "tag": ("T", rows[0][2]), "attrs": [], "content": []}
        for i, row in enumerate(rows):
            sw = None
            if row[1] != cp:
                sw = row[1]; cp = row[1]
            ch = {"sw": sw, "tag": ("T", row[2]), "attrs": [], "content": [("S", b"v%d" % i)] if i % 2 == 0 else None}
            root["content"].append(("E", ch))
        d = dict(base); d["root"] = root; d["kind"] = "all-tags"
        docs.append(d)
        arows = L["attrs_rows"]
        if arows:
            acp = 0
            attrs = []
            for i, row in enumerate(arows):
                sw = None
                if row[2] != acp:
                    sw = row[2]; acp = row[2]
                # SI / EMN date-time attributes need a decodable value
                if (lid == 1301 and row[2] == 0 and row[3] in (0x0a, 0x10)) or (lid == 1701 and row[2] == 0 and row[3] == 5):
                    vals = [("O", bytes([0x19, 0x99, 0x06, 0x25]))]
                else:
                    vals = [("S", b"w%d" % i)] if i % 3 else []
                attrs.append({"sw": sw, "start": ("T", row[3]), "vals": vals})
            # in chunks of 50 attributes per element
            content = []
            for k in range(0, len(attrs), 50):
                chunk = attrs[k:k + 50]
                content.append(("E", {"sw": None, "tag": ("T", rows[0][2]), "attrs": chunk, "content": None}))
            # the attribute code page persists across elements: chunks were built with a running page
            root = {"sw": rows[0][1] if rows[0][1] else None, "tag": ("T", rows[0][2]), "attrs": [], "content": content}
            d = dict(base); d["root"] = root; d["kind"] = "all-attr-starts"
            docs.append(d)
            vrows = L["vals_rows"]
            if vrows:
                acp = arows[0][2]
                vals = []
                for row in vrows:
                    sw = None
                    if row[1] != acp:
                        sw = row[1]; acp = row[1]
                    vals.append(("V", sw, row[2]))
                a = {"sw": arows[0][2] if arows[0][2] else None, "start": ("T", arows[0][3]), "vals": vals}
                if (lid == 1301 and arows[0][2] == 0 and arows[0][3] in (0x0a, 0x10)) or (lid == 1701 and arows[0][2] == 0 and arows[0][3] == 5):
                    a = {"sw": arows[1][2] if arows[1][2] else None, "start": ("T", arows[1][3]), "vals": vals}
                root = {"sw": rows[0][1] if rows[0][1] else None, "tag": ("T", rows[0][2]), "attrs": [a], "content": None}
                d = dict(base); d["root"] = root; d["kind"] = "all-attr-values"
                docs.append(d)
        if L["exts_rows"]:
            content = [("X", None, 0x80, row[1]) for row in L["exts_rows"]]
            root = {"sw": rows[0][1] if rows[0][1] else None, "tag": ("T", rows[0][2]), "attrs": [], "content": content}
            d = dict(base); d["root"] = root; d["kind"] = "all-ext-values"
            docs.append(d)
    return docs


def nested_doc(T, lid, depth):
    """a chain of `depth` nested elements (kept small: deep recursion is handled under C01)"""
    L = T.langs[lid]
    rows = L["tags_rows"]
    row = rows[0]
    e = {"sw": None, "tag": ("T", row[2]), "attrs": [], "content": [("S", b"x")]}
    for _ in range(depth):
        e = {"sw": None, "tag": ("T", row[2]), "attrs": [], "content": [("E", e)]}
    if row[1]:
        e["sw"] = row[1]
    usable_num = L["pub_num"] != 1 and T.first_with_pub(L["pub_num"]) == lid
    return {"lang": lid, "forced": 0 if usable_num else lid, "meta": 0, "ver": 3, "pub": ("N", L["pub_num"]), "charset": 106,
            "strtbl": b"", "pis_before": [], "pis_after": [], "root": e, "stats": {}, "mode": "num" if usable_num else "forced", "kind": "nested"}


# ---------------------------------------------------------------------------------------------
# malformed stream
# ---------------------------------------------------------------------------------------------

def field_replacements(doc, bs, fields):
    """(kind, description, mutated bytes, must_fail) — one length/index field replaced by a value exceeding
    the bytes available"""
    out = []
    n = len(bs)
    tl = len(doc["strtbl"])
    for kind, off, ln in fields:
        if kind == "strtbl_len":
            avail = n - (off + ln)
            vals = [avail + 1, avail + 2, 1 << 31, (1 << 32) - 1]
            must = True
        elif kind == "opaque_len":
            avail = n - (off + ln)
            vals = [avail + 1, avail + 2, 1 << 31, (1 << 32) - 1]
            must = True
        elif kind == "index" or (kind == "ext_t" and doc["lang"] in WML_LANGS):
            lo = max(tl, 1)
            vals = [lo, lo + 1, 1 << 31, (1 << 32) - 1]
            must = True
        elif kind == "pubidx":
            lo = max(tl, 1)
            vals = [lo, lo + 1, 1 << 31, (1 << 32) - 1]
            must = doc["forced"] == 0       # the public id is not consulted when the language is forced
        else:
            continue
        for v in vals:
            m = bs[:off] + mb(v) + bs[off + ln:]
            if kind in ("strtbl_len", "opaque_len"):
                # the replaced field may be longer: recompute what is available after it
                avail2 = len(m) - (off + len(mb(v)))
                if v <= avail2:
                    continue
            out.append((kind, "%s@%d:=%d" % (kind, off, v), m, must))
    return out


def unterminated_strings(doc, bs, fields):
    """an inline string (the last one in the document) loses its terminator and everything after it"""
    out = []
    ts = [f for f in fields if f[0] == "termstr"]
    for kind, off, ln in ts[-2:]:
        m = bs[:off + ln - 1]
        out.append(("termstr", "termstr@%d cut before NUL" % off, m, True))
        # all remaining NULs removed: the string runs to the end of the document
        tail = bytes(b for b in bs[off + ln - 1:] if b != 0)
        out.append(("termstr", "termstr@%d no NUL until the end" % off, bs[:off + ln - 1] + tail, True))
    return out
