"""Shared machinery of the libwbxml verification checks (see DESIGN.md §3, §4).

Everything here rebuilds from the *current working tree* of the repository
(VERIF_REPO, default /repo): C objects are keyed by a SHA-256 of the sources,
Gen/*.v files are regenerated, Coq is rebuilt with make (full .vo builds).
"""
import fcntl
import glob
import hashlib
import json
import os
import re
import shutil
import subprocess
import sys
import time
from concurrent.futures import ThreadPoolExecutor

VERIF = os.path.dirname(os.path.dirname(os.path.abspath(__file__)))
REPO = os.environ.get("VERIF_REPO", "/repo")
BUILD = os.path.join(VERIF, "build")
COQ = os.path.join(VERIF, "coq")
NPROC = os.cpu_count() or 4

SUPPORT = ["WML", "WTA", "SI", "SL", "CO", "PROV", "EMN", "DRMREL", "OTA_SETTINGS",
           "SYNCML", "WV", "AIRSYNC", "CONML"]

FLAVORS = {
    # as shipped (-O2 -g -DNDEBUG -fPIC) plus sanitizers for the correspondence runs
    "asan": ["gcc", "-O1", "-g", "-fno-omit-frame-pointer", "-fsanitize=address,undefined",
             "-fno-sanitize-recover=all", "-DNDEBUG", "-fPIC", "-w"],
    "plain": ["gcc", "-O2", "-g", "-DNDEBUG", "-fPIC", "-w"],
    "tsan": ["gcc", "-O1", "-g", "-fsanitize=thread", "-DNDEBUG", "-fPIC", "-w"],
}


def log(*a):
    print(*a, file=sys.stderr, flush=True)


def sh(cmd, timeout=None, cwd=None, env=None, input=None, check=False):
    """Run, return (rc, stdout, stderr) as text (errors='replace')."""
    p = subprocess.run(cmd, cwd=cwd, env=env, input=input, stdout=subprocess.PIPE,
                       stderr=subprocess.PIPE, timeout=timeout, shell=isinstance(cmd, str))
    out = p.stdout.decode("utf-8", "replace") if isinstance(p.stdout, bytes) else p.stdout
    err = p.stderr.decode("utf-8", "replace") if isinstance(p.stderr, bytes) else p.stderr
    if check and p.returncode != 0:
        raise RuntimeError("command failed (%d): %s\n%s\n%s" % (p.returncode, cmd, out[-4000:], err[-4000:]))
    return p.returncode, out, err


class Lock:
    def __init__(self, name):
        os.makedirs(BUILD, exist_ok=True)
        self.path = os.path.join(BUILD, name + ".lock")

    def __enter__(self):
        self.f = open(self.path, "w")
        fcntl.flock(self.f, fcntl.LOCK_EX)
        return self

    def __exit__(self, *a):
        fcntl.flock(self.f, fcntl.LOCK_UN)
        self.f.close()


# ----------------------------------------------------------------------------
# repository hash, C builds
# ----------------------------------------------------------------------------

def repo_files():
    fs = []
    for pat in ("src/*.c", "src/*.h", "src/*.cmake", "tools/*.c", "tools/*.h"):
        fs += glob.glob(os.path.join(REPO, pat))
    return sorted(fs)


_hash_cache = {}


def repo_hash():
    if REPO in _hash_cache:
        return _hash_cache[REPO]
    h = hashlib.sha256()
    for f in repo_files():
        h.update(os.path.relpath(f, REPO).encode() + b"\0")
        with open(f, "rb") as fh:
            h.update(hashlib.sha256(fh.read()).digest())
    _hash_cache[REPO] = h.hexdigest()[:20]
    return _hash_cache[REPO]


def lib_sources():
    return sorted(glob.glob(os.path.join(REPO, "src", "*.c")))


def _gen_config(incdir):
    """wbxml_config.h / wbxml_config_internals.h from the repository's own templates,
    default CMake options (the configuration of the pinned build)."""
    os.makedirs(incdir, exist_ok=True)
    on = set(["WBXML_ENCODER_USE_STRTBL", "HAVE_EXPAT", "HAVE_ICONV", "HAVE_LIMITS_H", "HAVE_STDLIB_H",
              "PACKAGE", "PACKAGE_BUGREPORT", "PACKAGE_NAME", "PACKAGE_STRING", "PACKAGE_TARNAME",
              "PACKAGE_VERSION", "VERSION"] + ["WBXML_SUPPORT_" + s for s in SUPPORT])
    vals = {"PACKAGE": "libwbxml", "PACKAGE_BUGREPORT": " ", "PACKAGE_NAME": "libwbxml",
            "PACKAGE_STRING": "libwbxml 0.11.10", "PACKAGE_TARNAME": "libwbxml",
            "PACKAGE_VERSION": "0.11.10", "VERSION": "0.11.10", "WBXML_LIB_VERSION": "0.11.10"}
    for name in ("wbxml_config.h", "wbxml_config_internals.h"):
        src = os.path.join(REPO, "src", name + ".cmake")
        out = []
        for line in open(src, encoding="utf-8", errors="replace"):
            m = re.match(r"\s*#cmakedefine\s+(\w+)(.*)", line)
            if m:
                k, rest = m.group(1), m.group(2)
                if k in on:
                    rest = re.sub(r"\$\{(\w+)\}", lambda mm: vals.get(mm.group(1), ""), rest)
                    out.append("#define %s%s\n" % (k, rest.rstrip("\n")))
                else:
                    out.append("/* #undef %s */\n" % k)
            else:
                line = re.sub(r"\$\{(\w+)\}", lambda mm: vals.get(mm.group(1), ""), line)
                line = re.sub(r"@(\w+)@", lambda mm: vals.get(mm.group(1), ""), line)
                out.append(line)
        with open(os.path.join(incdir, name), "w") as f:
            f.write("".join(out))
    # tools/config.h (pinned build: FOUND_POSIX_GETOPT is ON on this platform, so wbxml_getopt is libc's getopt)
    os.makedirs(os.path.join(incdir, "tools"), exist_ok=True)
    with open(os.path.join(incdir, "tools", "config.h"), "w") as f:
        f.write("#ifndef WBXML_TOOLS_CONFIG_H\n#define WBXML_TOOLS_CONFIG_H\n#define FOUND_POSIX_GETOPT\n#endif\n")


def _prune(base, keep):
    """keep disk use bounded: remove C build dirs of older tree hashes (never one used within the last hour)."""
    try:
        ds = sorted((os.path.getmtime(os.path.join(base, d)), d) for d in os.listdir(base))
    except FileNotFoundError:
        return
    now = time.time()
    for mt, d in ds[:-keep] if len(ds) > keep else []:
        # a directory touched within the last hour may be in use by a check running at the same time against another
        # tree (build_lib touches the directory on every use): never remove it
        if now - mt > 3600:
            shutil.rmtree(os.path.join(base, d), ignore_errors=True)


def cdir(flavor):
    return os.path.join(BUILD, "c", "%s-%s" % (repo_hash(), flavor))


def cflags(flavor):
    d = cdir(flavor)
    return FLAVORS[flavor][1:] + ["-I" + REPO, "-I" + os.path.join(d, "inc"), "-I" + os.path.join(REPO, "src")]


# library build variants selected by tag (so that build_harness(tag=...) can (re)build them)
LIB_VARIANTS = {
    "": [],
    # every allocation of the library goes through vf_* functions supplied by the harness
    # (heap accounting for C01/C02, fault injection for C16)
    "-vfmem": ["-Dmalloc=vf_malloc", "-Dfree=vf_free", "-Drealloc=vf_realloc", "-Dstrdup=vf_strdup"],
}


def build_lib(flavor="asan", extra_defs=(), tag=""):
    """Compile REPO/src/*.c (working tree) into a static archive; returns its directory."""
    if not extra_defs and tag in LIB_VARIANTS:
        extra_defs = LIB_VARIANTS[tag]
    d = cdir(flavor + tag)
    lib = os.path.join(d, "libwbxml.a")
    with Lock("c-" + flavor + tag):
        if os.path.exists(lib):
            os.utime(d)
            return d
        _prune(os.path.join(BUILD, "c"), 8)
        os.makedirs(os.path.join(d, "obj"), exist_ok=True)
        _gen_config(os.path.join(d, "inc"))
        cc = FLAVORS[flavor][0]
        flags = FLAVORS[flavor][1:] + ["-I" + REPO, "-I" + os.path.join(d, "inc")] + list(extra_defs)

        def comp(src):
            obj = os.path.join(d, "obj", os.path.basename(src)[:-2] + ".o")
            rc, out, err = sh([cc] + flags + ["-c", src, "-o", obj])
            return rc, src, err, obj
        with ThreadPoolExecutor(NPROC) as ex:
            res = list(ex.map(comp, lib_sources()))
        bad = [(s, e) for rc, s, e, _ in res if rc != 0]
        if bad:
            raise BuildError("C build failed: " + bad[0][0] + "\n" + bad[0][1][-3000:])
        sh(["ar", "rcs", lib + (".tmp%d" % os.getpid())] + [o for _, _, _, o in res], check=True)
        os.rename(lib + (".tmp%d" % os.getpid()), lib)
    return d


class BuildError(Exception):
    pass


def build_tools(flavor="asan"):
    """wbxml2xml / xml2wbxml executables from REPO/tools + the library of the current tree.
    Returns dict name -> path."""
    d = build_lib(flavor)
    out = {}
    with Lock("tools-" + flavor):
        for t in ("wbxml2xml", "xml2wbxml"):
            exe = os.path.join(d, t)
            if not os.path.exists(exe):
                cmd = [FLAVORS[flavor][0]] + cflags(flavor) + ["-I" + os.path.join(REPO, "tools"),
                       os.path.join(REPO, "tools", t + "_tool.c"), os.path.join(REPO, "tools", "attgetopt.c"),
                       os.path.join(d, "libwbxml.a"), "-lexpat", "-o", exe + (".tmp%d" % os.getpid())]
                rc, o, e = sh(cmd)
                if rc != 0:
                    raise BuildError("tool build failed: %s\n%s" % (t, e[-3000:]))
                os.rename(exe + (".tmp%d" % os.getpid()), exe)
            out[t] = exe
    return out


def build_harness(name, flavor="asan", sources=None, extra=(), libs=("-lexpat",), link_lib=True, tag=""):
    """Compile /verif/harness/<name>.c against the current tree; returns the binary path."""
    d = build_lib(flavor, tag=tag) if link_lib else cdir(flavor + tag)
    if not link_lib:
        os.makedirs(os.path.join(d, "inc"), exist_ok=True)
        if not os.path.exists(os.path.join(d, "inc", "wbxml_config.h")):
            _gen_config(os.path.join(d, "inc"))
    srcs = sources or [os.path.join(VERIF, "harness", name + ".c")]
    hh = hashlib.sha256()
    for s in srcs + sorted(glob.glob(os.path.join(VERIF, "harness", "*.h"))):
        hh.update(open(s, "rb").read())
    hh.update(repr(extra).encode())
    exe = os.path.join(d, "%s-%s" % (name, hh.hexdigest()[:12]))
    with Lock("h-" + name + flavor + tag):
        if os.path.exists(exe):
            return exe
        cc = FLAVORS[flavor][0]
        flags = FLAVORS[flavor][1:] + ["-I" + REPO, "-I" + os.path.join(d, "inc"), "-I" + os.path.join(REPO, "src"),
                                       "-I" + os.path.join(VERIF, "harness")] + list(extra)
        cmd = [cc] + flags + srcs + ([os.path.join(d, "libwbxml.a")] if link_lib else []) + list(libs) + ["-o", exe + (".tmp%d" % os.getpid())]
        rc, out, err = sh(cmd)
        if rc != 0:
            raise BuildError("harness build failed: %s\n%s" % (name, err[-4000:]))
        os.rename(exe + (".tmp%d" % os.getpid()), exe)
    return exe


ASAN_ENV = {"ASAN_OPTIONS": "detect_leaks=1:abort_on_error=0:exitcode=99:allocator_may_return_null=1",
            "UBSAN_OPTIONS": "halt_on_error=1:exitcode=98:print_stacktrace=1"}


def run_env(extra=None):
    e = dict(os.environ)
    e.update(ASAN_ENV)
    if extra:
        e.update(extra)
    return e


# ----------------------------------------------------------------------------
# Coq
# ----------------------------------------------------------------------------

def gen_coqproject():
    vs = []
    for sub in ("Base", "Model", "Gen", "Proofs", "Properties"):
        vs += sorted(os.path.relpath(p, COQ) for p in glob.glob(os.path.join(COQ, sub, "*.v")))
    txt = "-Q . Wbxml\n-arg -w -arg -notation-overridden,-deprecated-hint-without-locality,-deprecated-instance-without-locality\n" + "\n".join(vs) + "\n"
    p = os.path.join(COQ, "_CoqProject")
    old = open(p).read() if os.path.exists(p) else None
    if old != txt:
        with open(p, "w") as f:
            f.write(txt)
        sh(["coq_makefile", "-f", "_CoqProject", "-o", "Makefile.coq"], cwd=COQ, check=True)
    elif not os.path.exists(os.path.join(COQ, "Makefile.coq")):
        sh(["coq_makefile", "-f", "_CoqProject", "-o", "Makefile.coq"], cwd=COQ, check=True)


def write_if_changed(path, txt):
    """Regenerated Coq files (coq/Gen/*.v) are written under the Coq lock and their compiled files are removed with them,
    so that a .vo can never be taken as up to date for a source it was not compiled from (checks running at the same time
    against different trees regenerate these files for their own tree)."""
    gen = os.path.abspath(path).startswith(os.path.join(os.path.abspath(COQ), "Gen") + os.sep)
    def doit():
        old = open(path).read() if os.path.exists(path) else None
        if old != txt:
            os.makedirs(os.path.dirname(path), exist_ok=True)
            with open(path + (".tmp%d" % os.getpid()), "w") as f:
                f.write(txt)
            os.rename(path + (".tmp%d" % os.getpid()), path)
            if gen and path.endswith(".v"):
                b = path[:-2]
                for ext in (".vo", ".vos", ".vok", ".glob"):
                    try:
                        os.remove(b + ext)
                    except OSError:
                        pass
            return True
        return False
    if gen and not getattr(_coq_lock_state, "held", False):
        with Lock("coq"):
            return doit()
    return doit()


class _CoqLockState:
    held = False


_coq_lock_state = _CoqLockState()


def coq_make(targets, timeout=1500):
    """make -k the given .vo targets (paths relative to coq/). Returns (ok, log)."""
    with Lock("coq"):
        return _coq_make_locked(targets, timeout)


def _coq_make_locked(targets, timeout):
    _coq_lock_state.held = True
    try:
        # the regenerated files must be those of THIS process's tree at the moment make runs
        try:
            from . import gen as _gen
            _gen.regenerate_all()
        except BuildError:
            raise
        except Exception:
            pass
        gen_coqproject()
        cmd = ["timeout", str(timeout), "make", "-f", "Makefile.coq", "-k", "-j%d" % NPROC] + list(targets)
        rc, out, err = sh(cmd, cwd=COQ)
        return rc == 0, out + err
    finally:
        _coq_lock_state.held = False


def coq_property(pid, timeout=1500):
    """Build Properties/Properties_<pid>.vo and everything it needs; re-run the (tiny) properties
    file to capture Print Assumptions per theorem.
    Returns dict(ok, theorems=[{name, ok, assumptions}], log, failed=[names])"""
    rel = "Properties/Properties_%s.v" % pid
    src = os.path.join(COQ, rel)
    text = open(src).read()
    thms = re.findall(r"^\s*(?:Theorem|Lemma|Corollary)\s+(\w+)", text, re.M)
    _lk = Lock("coq")
    _lk.__enter__()
    try:
        ok, lg = _coq_make_locked([rel + "o"], timeout)
        if ok:
            os.makedirs(os.path.join(BUILD, "tmp"), exist_ok=True)
            rc, out, err = sh(["timeout", "600", "coqc", "-Q", ".", "Wbxml", "-w", "-all", rel, "-o",
                               os.path.join(BUILD, "tmp", "Properties_%s.vo" % pid)], cwd=COQ)
    finally:
        _lk.__exit__()
    res = {"ok": ok, "log": lg, "theorems": [], "failed": [], "file": rel}
    if not ok:
        # which theorem (if the failure is in the properties file itself) or which dependency
        m = re.search(r'File "\./(%s)", line (\d+)' % re.escape(rel), lg)
        failed_line = int(m.group(2)) if m else None
        dep = re.findall(r'File "\./([^"]+)", line (\d+)', lg)
        res["broken_at"] = ["%s:%s" % (f, l) for f, l in dep][:10]
        if failed_line:
            # theorem enclosing that line
            cur = None
            for i, line in enumerate(text.split("\n"), 1):
                mm = re.match(r"\s*(?:Theorem|Lemma|Corollary)\s+(\w+)", line)
                if mm:
                    cur = mm.group(1)
                if i >= failed_line:
                    break
            res["failed"] = [cur] if cur else thms
        else:
            res["failed"] = thms
        for t in thms:
            res["theorems"].append({"name": t, "ok": t not in res["failed"], "assumptions": None})
        return res
    blocks, cur = [], None
    for line in out.split("\n"):
        if line.startswith("Closed under the global context") or line.startswith("Axioms:"):
            if cur is not None:
                blocks.append(cur.strip())
            cur = line
        elif cur is not None:
            cur += "\n" + line
    if cur is not None:
        blocks.append(cur.strip())
    nocomment = re.sub(r"\(\*.*?\*\)", "", text, flags=re.S)
    printed = re.findall(r"^\s*Print Assumptions\s+(\w+)\s*\.", nocomment, re.M)
    amap = dict(zip(printed, blocks))
    for t in thms:
        res["theorems"].append({"name": t, "ok": True, "assumptions": amap.get(t)})
    res["assumption_blocks"] = amap
    return res


def coq_properties(pids, timeout=1500):
    """several property files for one claim (e.g. "C01" and "C01_parser"): merged coq_property result"""
    out = None
    for pid in pids:
        if not os.path.exists(os.path.join(COQ, "Properties", "Properties_%s.v" % pid)):
            continue
        r = coq_property(pid, timeout)
        if out is None:
            out = r
            out["file"] = r["file"]
        else:
            out["ok"] = out["ok"] and r["ok"]
            out["log"] += "\n" + r["log"]
            out["theorems"] += r["theorems"]
            out["failed"] += r["failed"]
            out["file"] += " " + r["file"]
            if r.get("broken_at"):
                out.setdefault("broken_at", [])
                out["broken_at"] += r["broken_at"]
    return out


def forbidden_scan():
    """The development must contain no Admitted/admit/Axiom/Parameter/... (returns offending lines)."""
    bad = []
    pat = re.compile(r"\b(Admitted|admit|Axiom|Axioms|Parameter|Parameters|Conjecture|Admit Obligations|"
                     r"Unset Guard Checking|Unset Positivity Checking|Unset Universe Checking|bypass_check|"
                     r"type-in-type|impredicative-set|native_compute)\b")
    for p in glob.glob(os.path.join(COQ, "**", "*.v"), recursive=True):
        txt = open(p).read()
        txt2 = re.sub(r"\(\*.*?\*\)", lambda m: "\n" * m.group(0).count("\n"), txt, flags=re.S)
        for i, line in enumerate(txt2.split("\n"), 1):
            if pat.search(line):
                bad.append("%s:%d: %s" % (os.path.relpath(p, COQ), i, line.strip()))
    return bad


# ----------------------------------------------------------------------------
# extraction + OCaml driver
# ----------------------------------------------------------------------------

def build_driver(name, extra_ml=()):
    """coq/Extract/Extract_<name>.v writes model.ml(i) into build/ml/<name>/ (cwd of coqc); driver/conv.ml is shared; driver/<name>_driver.ml is
    compiled against it with ocamlfind ocamlopt. Returns the executable path."""
    d = os.path.join(BUILD, "ml", name)
    os.makedirs(d, exist_ok=True)
    ext = os.path.join(COQ, "Extract", "Extract_%s.v" % name)
    drv = os.path.join(VERIF, "driver", "%s_driver.ml" % name)
    exe = os.path.join(d, name + "_driver")
    with Lock("ml-" + name):
        # dependencies of the Extract file
        txt = open(ext).read()
        mods = re.findall(r"Wbxml\.(\w+)\.(\w+)", txt)
        targets = ["%s/%s.vo" % (a, b) for a, b in mods]
        ok, lg = coq_make(targets)
        if not ok:
            raise BuildError("Coq build of model for extraction failed:\n" + lg[-3000:])
        deps = [ext, drv] + [os.path.join(COQ, t) for t in targets] + [os.path.join(VERIF, "driver", m) for m in ("conv.ml",) + tuple(extra_ml)]
        stamp = hashlib.sha256()
        for f in deps:
            stamp.update(open(f, "rb").read())
        sfile = os.path.join(d, "stamp")
        if os.path.exists(exe) and os.path.exists(sfile) and open(sfile).read() == stamp.hexdigest():
            return exe
        rc, out, err = sh(["coqc", "-Q", COQ, "Wbxml", "-w", "-all", ext, "-o", os.path.join(d, "Extract_%s.vo" % name)], cwd=d)
        if rc != 0:
            raise BuildError("extraction failed:\n" + err[-3000:])
        srcs = ["model.mli", "model.ml"]
        for m in ("conv.ml",) + tuple(extra_ml):
            shutil.copy(os.path.join(VERIF, "driver", m), d)
            srcs.append(m)
        shutil.copy(drv, d)
        srcs.append(os.path.basename(drv))
        rc, out, err = sh(["ocamlfind", "ocamlopt", "-O3", "-w", "-a", "-package", "str", "-linkpkg"] + srcs + ["-o", exe], cwd=d)
        if rc != 0:
            rc, out, err = sh(["ocamlfind", "ocamlopt", "-w", "-a", "-package", "str", "-linkpkg"] + srcs + ["-o", exe], cwd=d)
        if rc != 0:
            raise BuildError("ocaml build failed:\n" + err[-3000:])
        with open(sfile, "w") as f:
            f.write(stamp.hexdigest())
    return exe


# ----------------------------------------------------------------------------
# PRNG (splitmix64) — every random choice of a run derives from VERIF_SEED
# ----------------------------------------------------------------------------

class Rng:
    M = (1 << 64) - 1

    def __init__(self, seed, stream=0):
        self.s = (seed * 0x9E3779B97F4A7C15 + stream * 0xBF58476D1CE4E5B9 + 0x94D049BB133111EB) & self.M

    def next(self):
        self.s = (self.s + 0x9E3779B97F4A7C15) & self.M
        z = self.s
        z = ((z ^ (z >> 30)) * 0xBF58476D1CE4E5B9) & self.M
        z = ((z ^ (z >> 27)) * 0x94D049BB133111EB) & self.M
        return z ^ (z >> 31)

    def below(self, n):
        return self.next() % n if n > 0 else 0

    def range(self, a, b):
        return a + self.below(b - a + 1)

    def choice(self, xs):
        return xs[self.below(len(xs))]

    def chance(self, num, den):
        return self.below(den) < num

    def bytes(self, n):
        return bytes(self.below(256) for _ in range(n))


# ----------------------------------------------------------------------------
# known findings, violations, evidence
# ----------------------------------------------------------------------------

def known_findings():
    p = os.path.join(VERIF, "known_findings.json")
    if not os.path.exists(p):
        return []
    return json.load(open(p))["findings"]


class Ctx:
    """One run of one property's check."""

    def __init__(self, pid, tier, seed):
        self.pid, self.tier, self.seed = pid, tier, seed
        self.t0 = time.time()
        self.violations = []
        self.known_hits = []
        self.coverage = {}
        self.assumptions = []
        self.level = "proof"
        self.kf = [k for k in known_findings() if k["property"] == pid]

    # -- known findings ------------------------------------------------------
    def known(self, key):
        for k in self.kf:
            if k.get("status") == "known" and k["key"] == key:
                return k
        return None

    def report_known(self, key):
        k = self.known(key)
        if k and key not in self.known_hits:
            self.known_hits.append(key)
            print("KNOWN-FINDING: property=%s %s" % (self.pid, k["what"]), flush=True)
        return k is not None

    # -- violations ----------------------------------------------------------
    def violation(self, name, payload, found_input=True):
        """payload: JSON-able description (replay). found_input False => ends with no-failing-input-found."""
        os.makedirs(os.path.join(VERIF, "replays"), exist_ok=True)
        base = re.sub(r"[^A-Za-z0-9_.-]", "_", name)[:80]
        k = sum(1 for v in self.violations if os.path.basename(v).startswith("%s-%s" % (self.pid, base)))
        path = os.path.join(VERIF, "replays", "%s-%s%s.json" % (self.pid, base, "-%d" % k if k else ""))
        payload = dict(payload)
        payload.setdefault("property", self.pid)
        payload.setdefault("what", name)
        payload["failing_input_found"] = bool(found_input)
        payload["repo_hash"] = repo_hash()
        with open(path, "w") as f:
            json.dump(payload, f, indent=1, default=_jd)
        line = "VIOLATION property=%s replay=%s" % (self.pid, path)
        if not found_input:
            line += " no-failing-input-found"
        print(line, flush=True)
        self.violations.append(path)

    # -- evidence ------------------------------------------------------------
    def finish(self):
        cov = dict(self.coverage)
        ev = {"property_id": self.pid, "tier": self.tier, "seed": self.seed, "level": self.level,
              "coverage": cov, "assumptions": self.assumptions, "wall_s": round(time.time() - self.t0, 2),
              "violations": len(self.violations), "known_findings_hit": self.known_hits,
              "repo_hash": repo_hash()}
        # runs against scratch trees (seeded changes, mutation tests) must not overwrite the committed evidence
        evdir = os.environ.get("VERIF_EVIDENCE_DIR") or os.path.join(VERIF, "evidence")
        os.makedirs(evdir, exist_ok=True)
        p = os.path.join(evdir, self.pid + ".json")
        with open(p + (".tmp%d" % os.getpid()), "w") as f:
            json.dump(ev, f, indent=1, default=_jd)
        os.rename(p + (".tmp%d" % os.getpid()), p)
        return 1 if self.violations else 0


def _jd(o):
    if isinstance(o, (bytes, bytearray)):
        return o.hex()
    if isinstance(o, set):
        return sorted(o)
    return str(o)


TRUSTED_BASE_COMMON = [
    "Coq 8.16.1 kernel (coqc, full .vo builds; vm_compute used; native_compute not used)",
    "no Axiom/Parameter/Admitted in the development (scanned on every run); Print Assumptions per theorem recorded below",
    "extraction: ExtrOcamlBasic only (Extract Inductive bool/option/unit/list/prod/sumbool; Extract Inlined Constant fst/snd/andb/orb/negb as shipped), no Extract Constant of ours; OCaml 4.13.1 ocamlopt + hand-written line driver (trusted for the correspondence only)",
    "correspondence harness: gcc 12 -fsanitize=address,undefined build of the current /repo/src working tree, harness/*.c, python orchestrator vlib/*.py",
    "the theorems are about the Gallina model; the C is tied to it by differential testing (not verified)",
]


def proof_coverage(ctx, cres, extra_tb=()):
    """fill the proof-level keys of the evidence from a coq_property result."""
    th = cres["theorems"]
    tb = list(TRUSTED_BASE_COMMON) + list(extra_tb)
    for t in th:
        if t["assumptions"]:
            tb.append("Print Assumptions %s: %s" % (t["name"], " ".join(t["assumptions"].split())))
    ctx.coverage.update({
        "obligations": len(th),
        "discharged": sum(1 for t in th if t["ok"]),
        "checker_cmd": "cd coq && coq_makefile -f _CoqProject -o Makefile.coq && " + " && ".join(
            "make -f Makefile.coq -k -j16 %so && coqc -Q . Wbxml %s" % (f, f) for f in cres["file"].split(" ")),
        "trusted_base": tb,
        "theorems": [t["name"] for t in th],
    })


# ----------------------------------------------------------------------------
# line-protocol runners
# ----------------------------------------------------------------------------

def run_lines(exe, lines, shards=None, timeout=1800, env=None):
    """Feed `lines` (list of str) to `exe` on stdin, split over parallel processes; returns the
    list of answer lines (same order).  A crash / sanitizer report of a shard is returned as
    ('CRASH', rc, stderr_tail, first_line_index, last_line_index) entries in the second result."""
    if not lines:
        return [], []
    shards = shards or NPROC
    n = len(lines)
    per = max(1, (n + shards - 1) // shards)
    chunks = [(i, lines[i:i + per]) for i in range(0, n, per)]
    env = env or run_env()

    def work(ch):
        i0, ls = ch
        try:
            p = subprocess.run([exe], input=("\n".join(ls) + "\n").encode(), stdout=subprocess.PIPE,
                               stderr=subprocess.PIPE, env=env, timeout=timeout)
        except subprocess.TimeoutExpired as te:
            # a shard that does not finish is reported like a crash (possible non-termination), never raised
            part = (te.stdout or b"").decode("utf-8", "replace").split("\n")
            if part and part[-1] == "":
                part.pop()
            return i0, ls, -9, part[:-1] if part else [], "TIMEOUT after %ss" % timeout
        out = p.stdout.decode("utf-8", "replace").split("\n")
        if out and out[-1] == "":
            out.pop()
        return i0, ls, p.returncode, out, p.stderr.decode("utf-8", "replace")
    answers = [None] * n
    crashes = []
    with ThreadPoolExecutor(shards) as ex:
        for i0, ls, rc, out, err in ex.map(work, chunks):
            for k, o in enumerate(out[:len(ls)]):
                answers[i0 + k] = o
            if rc != 0 or len(out) != len(ls):
                crashes.append({"rc": rc, "stderr": err[-3000:], "first_unanswered": ls[len(out)] if len(out) < len(ls) else None,
                                "range": [i0, i0 + len(ls)]})
    return answers, crashes
