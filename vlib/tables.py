"""Helpers shared by the table properties C08 / C09 / C10 (own file: vlib/common.py is not edited).

Python reference lookups over the table dump, registry replay cases, C08 checkers and lookup cases."""
import hashlib
import json
import os
import re
import shutil

from . import common


def build_driver_s(name, extra_ml=()):
    """kept for compatibility: driver/conv.ml now writes OCaml strings as Stdlib.String.t, so the common builder works"""
    return common.build_driver(name, extra_ml)


# ----------------------------------------------------------------------------
# python reference implementation of the lookups over a dump (tables.json / registry json).
# Written independently of Model/Tables.v (dictionary / generator style): it is the oracle of the
# table checks and computes the offending rows when a vm_compute obligation fails.
# ----------------------------------------------------------------------------

KINDS = ("tags", "ns", "attrs", "vals", "exts")
GLOBAL_TOKENS = [0, 1, 2, 3, 4, 0x40, 0x41, 0x42, 0x43, 0x44, 0x80, 0x81, 0x82, 0x83, 0x84, 0xC0, 0xC1, 0xC2, 0xC3, 0xC4]


def load_registry():
    return json.load(open(os.path.join(common.VERIF, "registry", "tables-0.11.10.json")))


def rows(tj, l, kind):
    i = l[kind]
    return None if i < 0 else tj["tables"][str(i)]["rows"]


def lang_by_id(tj, lid):
    for l in tj["langs"]:
        if l["id"] == lid:
            return l
    return None


def hx(s):
    if s is None:
        return "~"
    b = s.encode("latin-1")
    return b.hex() if b else "-"


def first(it):
    for x in it:
        return x
    return None


def py_tag_of(tj, l, page, tok):
    rs = rows(tj, l, "tags")
    return None if rs is None else first(r for r in rs if r[2] == tok and r[1] == page)


def py_attr_of(tj, l, page, tok):
    rs = rows(tj, l, "attrs")
    return None if rs is None else first(r for r in rs if r[3] == tok and r[2] == page)


def py_val_of(tj, l, page, tok):
    rs = rows(tj, l, "vals")
    return None if rs is None else first(r for r in rs if r[2] == tok and r[1] == page)


def py_ext_of(tj, l, v):
    rs = rows(tj, l, "exts")
    return None if rs is None else first(r for r in rs if r[1] == v)


def py_tag_from_xml(tj, l, cur, name):
    rs = rows(tj, l, "tags")
    if rs is None:
        return None
    if cur is not None and cur >= 0:
        seen = False
        for r in rs:
            if r[1] == cur:
                seen = True
                if r[0] == name:
                    return r
            elif seen:
                break
    return first(r for r in rs if not (cur is not None and cur >= 0 and r[1] == cur) and r[0] == name)


def py_attr_from_xml(tj, l, name, value):
    """returns (row, left) — left None for NULL"""
    rs = rows(tj, l, "attrs")
    if rs is None:
        return None, value
    best, comp = None, 0
    for r in rs:
        if r[0] != name:
            continue
        if r[1] is None:
            if value is None:
                return r, None
            if best is None:
                best = r
        elif value is not None:
            if r[1] == value:
                return r, None
            if len(r[1]) < len(value) and comp < len(r[1]) and value.startswith(r[1]):
                best, comp = r, len(r[1])
    if best is not None:
        return best, (None if value is None else value[comp:])
    return None, value


def py_ext_from_xml(tj, l, value):
    rs = rows(tj, l, "exts")
    return None if rs is None else first(r for r in rs if r[0] == value)


def py_xmlns(tj, l, page):
    rs = rows(tj, l, "ns")
    r = None if rs is None else first(r for r in rs if r[1] == page)
    return None if r is None else r[0]


def py_page_of_ns(tj, l, ns):
    rs = rows(tj, l, "ns")
    r = None if rs is None else first(r for r in rs if r[0] == ns)
    return None if r is None else r[1]


def py_first_lang(tj, pred):
    l = first(l for l in tj["langs"] if pred(l))
    return None if l is None else l["id"]


def registry_diff(cur, reg):
    """python counterpart of Model/RegistryCheck.v: list of offending rows (dicts), empty when the
    registry is preserved."""
    bad = []

    def add(theorem, lid, kind, row, why, **kw):
        bad.append(dict(theorem=theorem, lang=lid, table=kind, registry_row=row, reason=why, **kw))
    for r in reg["langs"]:
        lid = r["id"]
        c = lang_by_id(cur, lid)
        if c is None:
            add("C09_registry_preserved", lid, "main", [lid], "language entry disappeared")
            continue
        for f in ("pub_num", "pub_text", "root", "dtd"):
            if c[f] != r[f]:
                add("C09_registry_preserved", lid, "main", [f, r[f]], "identifier changed", now=c[f])
        for row in rows(reg, r, "tags") or []:
            a, b = py_tag_of(cur, c, row[1], row[2]), py_tag_of(reg, r, row[1], row[2])
            if a is None or a[0] != b[0] or a[3] != b[3]:
                add("C09_registry_preserved", lid, "tags", row, "token decodes differently", registry_decodes_to=b, now_decodes_to=a)
            elif row not in (rows(cur, c, "tags") or []):
                add("C09_registry_preserved", lid, "tags", row, "row disappeared")
            w = py_tag_from_xml(cur, c, row[1], row[0])
            wr = None if w is None else py_tag_of(reg, r, w[1], w[2])
            if wr is None or wr[0] != b[0]:
                add("C09_written_tokens_readable_by_peers", lid, "tags", row, "name is written with a token the registry reads differently", written=w, registry_reads=wr)
        for row in rows(reg, r, "attrs") or []:
            a, b = py_attr_of(cur, c, row[2], row[3]), py_attr_of(reg, r, row[2], row[3])
            if a is None or a[:2] != b[:2]:
                add("C09_registry_preserved", lid, "attrs", row, "token decodes differently", registry_decodes_to=b, now_decodes_to=a)
            elif row not in (rows(cur, c, "attrs") or []):
                add("C09_registry_preserved", lid, "attrs", row, "row disappeared")
            w, left = py_attr_from_xml(cur, c, row[0], row[1])
            wr = None if w is None else py_attr_of(reg, r, w[2], w[3])
            if wr is None or left is not None or wr[:2] != b[:2]:
                add("C09_written_tokens_readable_by_peers", lid, "attrs", row, "attribute is written with a token the registry reads differently", written=w, left=left, registry_reads=wr)
        for row in rows(reg, r, "vals") or []:
            a, b = py_val_of(cur, c, row[1], row[2]), py_val_of(reg, r, row[1], row[2])
            if a is None or a[0] != b[0]:
                add("C09_registry_preserved", lid, "vals", row, "token decodes differently", registry_decodes_to=b, now_decodes_to=a)
            elif row not in (rows(cur, c, "vals") or []):
                add("C09_registry_preserved", lid, "vals", row, "row disappeared")
        for row in rows(reg, r, "exts") or []:
            a, b = py_ext_of(cur, c, row[1]), py_ext_of(reg, r, row[1])
            if a is None or a[0] != b[0]:
                add("C09_registry_preserved", lid, "exts", row, "token decodes differently", registry_decodes_to=b, now_decodes_to=a)
            elif row not in (rows(cur, c, "exts") or []):
                add("C09_registry_preserved", lid, "exts", row, "row disappeared")
            w = py_ext_from_xml(cur, c, row[0])
            wr = None if w is None else py_ext_of(reg, r, w[1])
            if wr is None or wr[0] != b[0]:
                add("C09_written_tokens_readable_by_peers", lid, "exts", row, "value is written with a token the registry reads differently", written=w, registry_reads=wr)
        for row in rows(reg, r, "ns") or []:
            if py_xmlns(cur, c, row[1]) != row[0] or py_page_of_ns(cur, c, row[0]) != row[1]:
                add("C09_registry_preserved", lid, "ns", row, "namespace <-> page changed",
                    now=[py_xmlns(cur, c, row[1]), py_page_of_ns(cur, c, row[0])])
        # identifiers resolve to the same (first registered) language
        chk = []
        if r["pub_num"] != 1:
            chk.append(("pub_num", lambda l, v=r["pub_num"]: l["pub_num"] == v))
        if r["pub_text"] is not None:
            chk.append(("pub_text", lambda l, v=r["pub_text"]: l["pub_text"] is not None and l["pub_text"].lower() == v.lower()))
        if r["dtd"] is not None:
            chk.append(("dtd", lambda l, v=r["dtd"]: l["dtd"] == v))
        if r["root"] is not None:
            chk.append(("root", lambda l, v=r["root"]: l["root"] == v))
        for f, pred in chk:
            a, b = py_first_lang(cur, pred), py_first_lang(reg, pred)
            if a != b:
                add("C09_identifiers_preserved", lid, "main", [f, r[f]], "identifier now selects another language", registry_selects=b, now_selects=a)
    return bad


# ----------------------------------------------------------------------------
# replay of registry rows on the real lookups (harness/c08_lookup.c line protocol)
# ----------------------------------------------------------------------------

def registry_cases(reg):
    """list of (line, judge, nrows, what): judge(answer) -> list of offending-row dicts.
    Expectations come from the registry json only (python first-match), not from the Coq model."""
    cases = []
    for r in reg["langs"]:
        lid = r["id"]
        cases.append(("g %d" % lid, (lambda a, lid=lid: [] if a not in (None, "none", "nolang") else
                                    [dict(lang=lid, table="main", reason="language id no longer registered", now=a)]), 1, "lang"))
        tg = rows(reg, r, "tags") or []
        for page in sorted(set(x[1] for x in tg)):
            exp = {}
            for x in tg:
                if x[1] == page:
                    exp.setdefault(x[2], x)

            def judge(a, lid=lid, page=page, exp=exp):
                f = (a or "").split(" ")
                out = []
                for tok, x in exp.items():
                    for hi in (0, 0x40, 0x80, 0xC0):
                        want = "%s:%d" % (hx(x[0]), x[3])
                        got = f[tok | hi] if len(f) == 256 else a
                        if got != want:
                            out.append(dict(lang=lid, table="tags", page=page, byte=tok | hi, registry_row=x, reason="tag token decodes differently",
                                            want=want, now=got))
                            break
                return out
            cases.append(("T %d %d" % (lid, page), judge, len(exp), "tags"))
            # encoding direction, one line per row
            for x in tg:
                if x[1] != page:
                    continue

                def judge_t(a, lid=lid, x=x, r=r):
                    f = (a or "").split(" ")
                    b = py_tag_of(reg, r, x[1], x[2])
                    wr = py_tag_of(reg, r, int(f[0]), int(f[1])) if len(f) == 3 else None
                    if wr is None or wr[0] != b[0]:
                        return [dict(lang=lid, table="tags", registry_row=x, reason="name is written with a token the registry reads differently",
                                     now=a, registry_reads=wr)]
                    return []
                cases.append(("t %d %d %s" % (lid, page, hx(x[0])), judge_t, 1, "tags-enc"))
        at = rows(reg, r, "attrs") or []
        for page in sorted(set(x[2] for x in at)):
            exp = {}
            for x in at:
                if x[2] == page:
                    exp.setdefault(x[3], x)

            def judge(a, lid=lid, page=page, exp=exp):
                f = (a or "").split(" ")
                out = []
                for tok, x in exp.items():
                    want = "%s=%s" % (hx(x[0]), hx(x[1]))
                    got = f[tok] if len(f) == 256 else a
                    if got != want:
                        out.append(dict(lang=lid, table="attrs", page=page, byte=tok, registry_row=x, reason="attribute token decodes differently",
                                        want=want, now=got))
                return out
            cases.append(("A %d %d" % (lid, page), judge, len(exp), "attrs"))
        for x in at:
            def judge_a(a, lid=lid, x=x, r=r):
                f = (a or "").split(" ")
                b = py_attr_of(reg, r, x[2], x[3])
                wr = py_attr_of(reg, r, int(f[0]), int(f[1])) if len(f) == 5 else None
                if wr is None or wr[:2] != b[:2] or f[4] != "~":
                    return [dict(lang=lid, table="attrs", registry_row=x, reason="attribute is written with a token the registry reads differently",
                                 now=a, registry_reads=wr)]
                return []
            cases.append(("a %d %s %s" % (lid, hx(x[0]), hx(x[1])), judge_a, 1, "attrs-enc"))
        vt = rows(reg, r, "vals") or []
        for page in sorted(set(x[1] for x in vt)):
            exp = {}
            for x in vt:
                if x[1] == page:
                    exp.setdefault(x[2], x)

            def judge(a, lid=lid, page=page, exp=exp):
                f = (a or "").split(" ")
                out = []
                for tok, x in exp.items():
                    got = f[tok] if len(f) == 256 else a
                    if got != hx(x[0]):
                        out.append(dict(lang=lid, table="vals", page=page, byte=tok, registry_row=x, reason="value token decodes differently",
                                        want=hx(x[0]), now=got))
                return out
            cases.append(("V %d %d" % (lid, page), judge, len(exp), "vals"))
        et = rows(reg, r, "exts") or []
        seen = set()
        for x in et:
            if x[1] not in seen and x[1] < 256:
                seen.add(x[1])
                cases.append(("E %d %d" % (lid, x[1]), (lambda a, lid=lid, x=x: [] if a == hx(x[0]) else
                              [dict(lang=lid, table="exts", registry_row=x, reason="extension value decodes differently", now=a)]), 1, "exts"))

            def judge_e(a, lid=lid, x=x, r=r):
                b = py_ext_of(reg, r, x[1])
                wr = py_ext_of(reg, r, int(a)) if (a or "").isdigit() else None
                if wr is None or wr[0] != b[0]:
                    return [dict(lang=lid, table="exts", registry_row=x, reason="value is written with a token the registry reads differently", now=a)]
                return []
            cases.append(("e %d %s" % (lid, hx(x[0])), judge_e, 1, "exts-enc"))
        for x in rows(reg, r, "ns") or []:
            cases.append(("n %d %d" % (lid, x[1]), (lambda a, lid=lid, x=x: [] if a == hx(x[0]) else
                          [dict(lang=lid, table="ns", registry_row=x, reason="code page maps to another namespace", now=a)]), 1, "ns"))
            cases.append(("p %d %s" % (lid, hx(x[0])), (lambda a, lid=lid, x=x: [] if a == str(x[1]) else
                          [dict(lang=lid, table="ns", registry_row=x, reason="namespace maps to another code page", now=a)]), 1, "ns"))
    return cases


def swapcase_some(s, rng=None):
    return "".join(c.upper() if i % 2 == 0 else c.lower() for i, c in enumerate(s))


def registry_id_cases(reg):
    """identifier routes of the XML side on the real wbxml_tables_search_table, judged against the registry's first match"""
    cases = []
    for r in reg["langs"]:
        lid = r["id"]
        if r["pub_text"] is not None:
            for form in (r["pub_text"], r["pub_text"].lower(), swapcase_some(r["pub_text"])):
                want = py_first_lang(reg, lambda l, v=form: l["pub_text"] is not None and l["pub_text"].lower() == v.lower())
                cases.append(("s %s ~ ~" % hx(form), (lambda a, lid=lid, want=want, form=form: [] if a == str(want) else
                              [dict(lang=lid, table="main", registry_row=["pub_text", form], reason="public id now selects another language",
                                    registry_selects=want, now=a)]), 1, "ids"))
        if r["dtd"] is not None:
            want = py_first_lang(reg, lambda l, v=r["dtd"]: l["dtd"] == v)
            cases.append(("s ~ %s ~" % hx(r["dtd"]), (lambda a, lid=lid, want=want, v=r["dtd"]: [] if a == str(want) else
                          [dict(lang=lid, table="main", registry_row=["dtd", v], reason="system id now selects another language",
                                registry_selects=want, now=a)]), 1, "ids"))
        if r["root"] is not None:
            want = py_first_lang(reg, lambda l, v=r["root"]: l["root"] == v)
            if ":" in r["root"]:
                continue        # o-ex:rights: goes through the namespace scan first (C10)
            cases.append(("s ~ ~ %s" % hx(r["root"]), (lambda a, lid=lid, want=want, v=r["root"]: [] if a == str(want) else
                          [dict(lang=lid, table="main", registry_row=["root", v], reason="root element now selects another language",
                                registry_selects=want, now=a)]), 1, "ids"))
    return cases


# ----------------------------------------------------------------------------
# C08: python counterpart of Model/TablesCheck.v (offending rows) and the exhaustive lookup cases
# ----------------------------------------------------------------------------

KNOWN_TAG_ALIASES = [(14, 16, "DeviceEncryptionEnabled", "RequireStorageCardEncryption")]
KNOWN_EXT_SYNONYMS = [("SMS", 67, 117), ("IM", 18, 104)]


def tables_check(tj):
    """list of offending rows {lang, table, row, reason, theorem}"""
    bad = []

    def add(thm, l, kind, row, why, **kw):
        bad.append(dict(theorem=thm, lang=l["id"], table=kind, row=row, reason=why, **kw))
    for l in tj["langs"]:
        tg, at, vt, et, nt = (rows(tj, l, k) or [] for k in ("tags", "attrs", "vals", "exts", "ns"))
        for r in tg:
            if not (5 <= r[2] <= 0x3F) or (r[2] & 0x3F) in GLOBAL_TOKENS or r[1] > 255:
                add("C08_token_ranges", l, "tags", r, "tag token outside 0x05-0x3F / equal to a global token after masking")
            d = py_tag_of(tj, l, r[1], r[2])
            e = py_tag_from_xml(tj, l, r[1], d[0])
            if e is None or (e[1], e[2]) != (r[1], r[2]):
                add("C08_tag_decode_then_encode", l, "tags", r, "token decodes to a name that is encoded with another token", decodes_to=d, encoded_as=e)
            for cur in (None, r[1]):
                e = py_tag_from_xml(tj, l, cur, r[0])
                d = None if e is None else py_tag_of(tj, l, e[1], e[2])
                if d is None or (d[0] != r[0] and (e[1], e[2], d[0], r[0]) not in KNOWN_TAG_ALIASES):
                    add("C08_tag_encode_then_decode", l, "tags", r, "name is encoded with a token that decodes to another name (shadowed / duplicated token)",
                        cur_page=cur, encoded_as=e, decodes_to=d)
        for r in at:
            if not (5 <= r[3] <= 0x7F) or r[3] in GLOBAL_TOKENS or r[2] > 255:
                add("C08_token_ranges", l, "attrs", r, "attribute-start token outside 0x05-0x7F / equal to a global token")
            d = py_attr_of(tj, l, r[2], r[3])
            e, left = py_attr_from_xml(tj, l, d[0], d[1])
            d2 = None if e is None else py_attr_of(tj, l, e[2], e[3])
            if e is None or left is not None or e[3] != r[3] or d2[:2] != d[:2]:
                add("C08_attr_decode_then_encode", l, "attrs", r, "token decodes to a name/value that is encoded with another token", decodes_to=d, encoded_as=e, left=left)
            e, left = py_attr_from_xml(tj, l, r[0], r[1])
            d = None if e is None else py_attr_of(tj, l, e[2], e[3])
            if d is None or left is not None or d[:2] != r[:2]:
                add("C08_attr_encode_then_decode", l, "attrs", r, "name/value is encoded with a token that decodes differently", encoded_as=e, left=left, decodes_to=d)
        for r in vt:
            if not (0x85 <= r[2] <= 0xFF) or r[2] in GLOBAL_TOKENS or r[1] > 255:
                add("C08_token_ranges", l, "vals", r, "attribute-value token outside 0x85-0xFF / equal to a global token")
            d = py_val_of(tj, l, r[1], r[2])
            e = first(x for x in vt if x[0] in d[0])
            if e is None or e[0] != d[0] or e[2] != r[2]:
                add("C08_value_decode_then_encode", l, "vals", r, "token decodes to a string the encoder tokenises differently", decodes_to=d, first_match=e)
            e = first(x for x in vt if x[0] in r[0])
            d = None if e is None else py_val_of(tj, l, e[1], e[2])
            if d is None or d[0] != r[0]:
                add("C08_value_encode_then_decode", l, "vals", r, "value is encoded with a token that decodes differently (an earlier row is a substring)", first_match=e, decodes_to=d)
        if len(et) >= 256:
            add("C08_token_ranges", l, "exts", [len(et)], "extension table has 256 rows or more (8-bit index in parse_extension)")
        for r in et:
            if r[1] > 255:
                add("C08_token_ranges", l, "exts", r, "extension token above 255")
            d = py_ext_of(tj, l, r[1])
            e = py_ext_from_xml(tj, l, d[0])
            if e is None or (e[1] != r[1] and (d[0], e[1], r[1]) not in KNOWN_EXT_SYNONYMS):
                add("C08_ext_decode_then_encode", l, "exts", r, "token decodes to a string that is encoded with another token", decodes_to=d, encoded_as=e)
            e = py_ext_from_xml(tj, l, r[0])
            d = None if e is None else py_ext_of(tj, l, e[1])
            if d is None or d[0] != r[0]:
                add("C08_ext_encode_then_decode", l, "exts", r, "string is encoded with a token that decodes differently", encoded_as=e, decodes_to=d)
        for r in nt:
            if py_xmlns(tj, l, r[1]) != r[0] or py_page_of_ns(tj, l, r[0]) != r[1] or r[1] > 255:
                add("C08_namespace_bijection", l, "ns", r, "namespace <-> code page is not one to one",
                    page_maps_to=py_xmlns(tj, l, r[1]), ns_maps_to=py_page_of_ns(tj, l, r[0]))
        if l["ns"] >= 0:
            for p in sorted(set(r[1] for r in tg)):
                if py_xmlns(tj, l, p) is None:
                    add("C08_namespace_bijection", l, "ns", [p], "tag code page without a namespace")
    return bad


def mutate_names(rng, names, k):
    out = []
    names = list(names)
    for _ in range(k):
        if not names:
            break
        n = rng.choice(names)
        r = rng.below(5)
        if r == 0:
            out.append(n + rng.choice("xZ_1"))
        elif r == 1:
            out.append(n.swapcase())
        elif r == 2:
            out.append(n[:-1])
        elif r == 3:
            out.append(rng.choice("aQz") + n)
        else:
            out.append(n[: len(n) // 2])
    return out


def lookup_cases(tj, rng):
    """the exhaustive tie of C08: every language x every code page x every byte in the three token spaces
    through the parser's scans, every extension value 0..255, every row through the name -> token functions
    (tags with every code page of the table, no page and an absent page), plus names that are not in the table.
    Returns list of (line, kind)."""
    cases = []
    for l in tj["langs"]:
        lid = l["id"]
        tg, at, vt, et, nt = (rows(tj, l, k) for k in ("tags", "attrs", "vals", "exts", "ns"))
        cases.append(("g %d" % lid, "get_table"))
        for page in range(256):
            cases.append(("T %d %d" % (lid, page), "tag_of_byte"))
            cases.append(("A %d %d" % (lid, page), "attr_of_token"))
            cases.append(("V %d %d" % (lid, page), "val_of_token"))
        if et is not None:
            for v in range(256):
                cases.append(("E %d %d" % (lid, v), "ext_of_token"))
        pages = sorted(set(r[1] for r in tg or []))
        absent = first(p for p in (255, 254, 253, 77) if p not in pages)
        names = sorted(set(r[0] for r in tg or []))
        for n in names + mutate_names(rng, names, 12) + ["", "unknown"]:
            for cur in [-1] + pages + [absent]:
                cases.append(("t %d %d %s" % (lid, cur, hx(n)), "tag_from_xml"))
        seen = set()
        for r in at or []:
            vals = [None, r[1]] if r[1] is not None else [None]
            if r[1] is not None:
                vals += [r[1] + rng.choice(["x", "/a", "0"]), r[1][:-1], r[1] + r[1]]
            vals += ["", "zzz", rng.choice(["http://www.example.org/", "https://a", "true", "1"])]
            for v in vals:
                k = (r[0], v)
                if k not in seen:
                    seen.add(k)
                    cases.append(("a %d %s %s" % (lid, hx(r[0]), hx(v)), "attr_from_xml"))
        for n in mutate_names(rng, sorted(set(r[0] for r in at or [])), 8) + ["nosuchattr"]:
            cases.append(("a %d %s %s" % (lid, hx(n), hx(rng.choice([None, "x"]))), "attr_from_xml"))
        en = sorted(set(r[0] for r in et or []))
        for n in en + mutate_names(rng, en, 10) + ["", "nosuch"]:
            cases.append(("e %d %s" % (lid, hx(n)), "ext_from_xml"))
        vn = sorted(set(r[0] for r in vt or []))
        for n in vn:
            cases.append(("c %d %s" % (lid, hx(n)), "contains_attr_value"))
            cases.append(("c %d %s" % (lid, hx("q" + n + "q")), "contains_attr_value"))
            cases.append(("c %d %s" % (lid, hx(n[:-1])), "contains_attr_value"))
        cases.append(("c %d %s" % (lid, hx("")), "contains_attr_value"))
        cases.append(("c %d %s" % (lid, hx("~~~")), "contains_attr_value"))
        for page in range(256):
            cases.append(("n %d %d" % (lid, page), "xmlns_of_page"))
        nn = [r[0] for r in nt or []]
        for n in nn + mutate_names(rng, nn, 4) + ["", "nosuch:ns"]:
            cases.append(("p %d %s" % (lid, hx(n)), "page_of_xmlns"))
    cases.append(("g 0", "get_table"))
    cases.append(("g 4294967295", "get_table"))
    cases.append(("g 9999", "get_table"))
    return cases


def unhx(h):
    if h == "~":
        return None
    return "" if h == "-" else bytes.fromhex(h).decode("latin-1")


def c_roundtrip_oracle(tj, cases, answers):
    """judge the C's own answers: decode maps from the T/A/V/E lines, encode answers from the t/a/e lines;
    the round trips of the property are recomputed from the C's answers alone (no model, no python lookup).
    Returns list of offending dicts with the harness lines as input."""
    dec_t, dec_a, dec_v, dec_e = {}, {}, {}, {}
    for (line, kind), a in zip(cases, answers):
        f = line.split(" ")
        if a is None:
            continue
        if f[0] in "TAV":
            fields = a.split(" ")
            if len(fields) == 256:
                {"T": dec_t, "A": dec_a, "V": dec_v}[f[0]][(int(f[1]), int(f[2]))] = fields
        elif f[0] == "E":
            dec_e[(int(f[1]), int(f[2]))] = a
    bad = []
    for (line, kind), a in zip(cases, answers):
        f = line.split(" ")
        if a is None:
            continue
        if f[0] == "t" and a != "none":
            lid, cur, name = int(f[1]), int(f[2]), f[3]
            p, t, n = a.split(" ")
            l = lang_by_id(tj, lid)
            if not any(r[0] == unhx(name) for r in rows(tj, l, "tags") or []):
                bad.append(dict(input=line, c=a, reason="a name that is in no row was given a token"))
                continue
            back = dec_t.get((lid, int(p)), [None] * 256)[int(t)]
            bname = back.split(":")[0] if back else None
            if bname != name and (int(p), int(t), unhx(bname) if bname not in (None, "?", "notable") else None, unhx(name)) not in KNOWN_TAG_ALIASES:
                bad.append(dict(input=line, c=a, decode_input="T %d %s" % (lid, p), decodes_to=back,
                                reason="tag name is encoded with a token that the parser decodes to another name"))
        elif f[0] == "a" and a != "none":
            lid = int(f[1])
            p, t, n, v, left = a.split(" ")
            back = dec_a.get((lid, int(p)), [None] * 256)[int(t)]
            if back != "%s=%s" % (n, v):
                bad.append(dict(input=line, c=a, decode_input="A %d %s" % (lid, p), decodes_to=back,
                                reason="attribute is encoded with a token that the parser decodes to another name/value"))
            # the value prefix of the row plus what is left must be the value asked for
            asked = unhx(f[3])
            if asked is not None and n == f[2]:
                pre, lf = unhx(v) or "", unhx(left)
                if (lf is None and asked != pre) or (lf is not None and pre + lf != asked):
                    bad.append(dict(input=line, c=a, reason="value prefix + rest differs from the value"))
        elif f[0] == "e" and a != "none":
            lid = int(f[1])
            back = dec_e.get((lid, int(a)))
            if back != f[2]:
                bad.append(dict(input=line, c=a, decode_input="E %d %s" % (lid, a), decodes_to=back,
                                reason="extension string is encoded with a token that decodes to another string"))
    # decode-then-encode on the C's answers: every decodable (page, byte) re-encodes to the same token
    enc_t = {}
    for (line, kind), a in zip(cases, answers):
        f = line.split(" ")
        if f[0] == "t":
            enc_t[(int(f[1]), int(f[2]), f[3])] = a
    for (lid, page), fields in dec_t.items():
        for b in range(5, 64):
            x = fields[b]
            if x in ("?", "notable") or x.startswith("err"):
                continue
            n = x.split(":")[0]
            e = enc_t.get((lid, page, n))
            if e is None or e.split(" ")[:2] != [str(page), str(b)]:
                bad.append(dict(input="T %d %d" % (lid, page), byte=b, decodes_to=x, encode_input="t %d %d %s" % (lid, page, n), c=e,
                                reason="tag token decodes to a name that is encoded, in that page, with another token"))
    # the same for attribute-start tokens: the (name, value prefix) a token decodes to is encoded with that token again
    # (or with a true duplicate: another token that decodes to the very same pair, nothing of the value left over)
    enc_a = {}
    for (line, kind), a in zip(cases, answers):
        f = line.split(" ")
        if f[0] == "a" and len(f) == 4:
            enc_a[(int(f[1]), f[2], f[3])] = a
    for (lid, page), fields in dec_a.items():
        for b in range(5, 128):
            x = fields[b]
            if x in ("?", "notable") or x.startswith("err") or "=" not in x:
                continue
            n, v = x.split("=", 1)
            e = enc_a.get((lid, n, v))
            if e is None:
                continue                      # the pair was not among the cases asked
            ef = e.split(" ")
            if len(ef) == 5 and [ef[0], ef[1]] == [str(page), str(b)] and ef[4] == "~":
                continue
            back = dec_a.get((lid, int(ef[0])), [None] * 256)[int(ef[1])] if len(ef) == 5 else None
            if len(ef) == 5 and back == x and ef[4] == "~":
                continue                      # a duplicate row: same name and value prefix under two tokens
            bad.append(dict(input="A %d %d" % (lid, page), byte=b, decodes_to=x, encode_input="a %d %s %s" % (lid, n, v), c=e,
                            reason="attribute token decodes to a name/value that is encoded with another token"))
    # namespaces: every row (namespace, page) of a namespace table is found in both directions by the C's own look-ups
    nmap, pmap = {}, {}
    for (line, kind), a in zip(cases, answers):
        f = line.split(" ")
        if f[0] == "n":
            nmap[(int(f[1]), int(f[2]))] = a
        elif f[0] == "p" and len(f) > 2:
            pmap[(int(f[1]), f[2])] = a
    for l in tj["langs"]:
        for r in rows(tj, l, "ns") or []:
            ns, page = r[0], r[1]
            got_ns = nmap.get((l["id"], page))
            got_pg = pmap.get((l["id"], hx(ns)))
            if got_ns is not None and got_ns != hx(ns):
                bad.append(dict(input="n %d %d" % (l["id"], page), c=got_ns, reason="the code page of namespace %r does not map back to it" % ns))
            if got_pg is not None and got_pg != str(page):
                bad.append(dict(input="p %d %s" % (l["id"], hx(ns)), c=got_pg, reason="namespace %r does not map to its code page %d" % (ns, page)))
    return bad
