"""C06 tree stream: XML documents synthesised from the token tables of every language (gen.tables_json()).

Per language: every tag name (consecutive siblings and parent/child pairs alternate between code pages where the
language has several), every attribute start row (exact value, value with a remainder, remainder containing
attribute-value-token substrings, repeated remainders), unknown element / attribute names (literals), repeated
text with and without surrounding blanks and repeated words (string table), blank-only text between elements,
CDATA sections, typed values (SI / EMN %Datetime, WV integers / date-times / extension tokens, base64 content of
binary-flagged tags, the Nokia OTA icon).  Everything random derives from the Rng passed in."""
import base64
import re
from xml.sax.saxutils import escape, quoteattr

from .strictdec import WV_INT, WV_DT


class E:
    def __init__(self, name, ns=None, attrs=None, kids=None):
        self.name, self.ns, self.attrs, self.kids = name, ns, list(attrs or []), list(kids or [])


def render(e, indent, inherited_ns=None, depth=0, rootdecl=""):
    """indent: None = no white space between elements; n = newline + n*depth blanks"""
    s = "<" + e.name
    ns = inherited_ns
    if e.ns is not None and e.ns != inherited_ns:
        s += " xmlns=%s" % quoteattr(e.ns)
        ns = e.ns
    s += rootdecl
    for n, v in e.attrs:
        s += " %s=%s" % (n, quoteattr(v))
    if not e.kids:
        return s + "/>"
    s += ">"
    only_text = all(not isinstance(k, E) for k in e.kids)
    for k in e.kids:
        if isinstance(k, E):
            if indent is not None:
                s += "\n" + " " * (indent * (depth + 1))
            s += render(k, indent, ns, depth + 1)
        elif isinstance(k, tuple) and k[0] == "raw":
            s += k[1]
        elif isinstance(k, tuple):           # ('cdata', text)
            s += "<![CDATA[" + k[1] + "]]>"
        else:
            s += escape(k)
    if indent is not None and not only_text:
        s += "\n" + " " * (indent * depth)
    return s + "</" + e.name + ">"


DATETIMES = ["2002-04-16T06:40:00Z", "1999-12-31T23:59:59Z", "2020-01-01T00:00:00Z", "2002-04-16T06:40Z", "2010-10-10T10:00:00Z",
             "20020416064000", "2003-01-01T00:00:00Z",
             # canon_dt case splits: 4 / 5 / 6 / 7 BCD octets, all-zero time (the zero octets are not written), date only
             "1999-06-25", "1999-06-25T00:00:00Z", "1999-06-25T10", "1999-06-25T10:20", "2000-01-01T00:00:07Z", "1999-06-25T10:00:00Z"]
WV_DATETIMES = ["20011019T095031Z", "20011019T095031", "20011019T0950", "20011019T0950Z", "20011019T095031A", "2001-10-19T09:50:31Z",
                "19991231T235959Y", "08000101T0100", "40951231T235959"]
WV_INTS = ["0", "1", "127", "128", "255", "256", "65535", "65536", "16777216", "4294967295", "200", "0x1F", "0xffff", "42",
           # canon_wv_int case splits: leading zeros, the 0X form, 1..4 octet boundaries written with leading zeros
           "0200", "007", "0X10", "00256", "0065536"]
ICON = base64.b64encode(b"GIF89a\x01\x00\x01\x00\x80\x00\x00\xff\xff\xff\x00\x00\x00!\xf9\x04").decode()
BINS = [base64.b64encode(b).decode() for b in (b"binary\x00data\xff\xfe", b"abcd", b"\x00\x01\x02", b"The quick brown fox", b"abcd")]

# base64 of " ", "\r\n", "\t \n", "\n\n", " a " (the last one is not blank: the control)
BLANK_BINS = ["IA==", "DQo=", "CSAK", "Cgo=", "IGEg"]


def doctype(lang):
    root = lang["root"]
    if lang["pub_text"]:
        return '<?xml version="1.0"?><!DOCTYPE %s PUBLIC "%s" "%s">' % (root, lang["pub_text"], lang["dtd"] or "x.dtd")
    return '<?xml version="1.0"?><!DOCTYPE %s SYSTEM "%s">' % (root, lang["dtd"])


class LangGen:
    def __init__(self, tj, lang, rng, token_root=False):
        self.tj, self.lang, self.rng = tj, lang, rng
        self.token_root = token_root
        T = tj["tables"]
        self.tags = T[str(lang["tags"])]["rows"] if lang["tags"] >= 0 else []
        self.all_tags = self.tags
        # names that cannot be written in XML ("Reserved for future use"), and the two names the front end treats
        # as embedded documents when they are not the root
        self.tags = [t for t in self.tags if re.fullmatch(r"[A-Za-z_][A-Za-z0-9_.:-]*", t[0])
                     and t[0] not in ("DevInf", "MgmtTree")]
        self.attrs = T[str(lang["attrs"])]["rows"] if lang["attrs"] >= 0 else None
        self.vals = T[str(lang["vals"])]["rows"] if lang["vals"] >= 0 else []
        self.exts = T[str(lang["exts"])]["rows"] if lang["exts"] >= 0 else []
        self.ns = {p: n for n, p in reversed(T[str(lang["ns"])]["rows"])} if lang["ns"] >= 0 else None
        self.lid = lang["id"]
        self.uniq = 0
        prefixes = sorted({t[0].split(":")[0] for t in self.tags if ":" in t[0]})
        self.rootdecl = "".join(' xmlns:%s="urn:x-%s"' % (p, p) for p in prefixes)

    # ---- texts -------------------------------------------------------------------------------
    def unique_text(self):
        self.uniq += 1
        return "text%d %s" % (self.uniq, self.rng.choice(["plain", "with words in it", "x", "lorem ipsum dolor", "a<b&c>d", "héllo wörld €", "end ]]> of > cdata ]] marker", "]]>"]))

    def is_typed(self, tag):
        name, page, tok, opts = tag
        return bool(opts & 1) or (self.lid in (2301, 2302) and (tok in WV_INT.get(page, ()) or tok in WV_DT.get(page, ())))

    def text_for(self, tag, pool):
        name, page, tok, opts = tag
        if opts & 1:
            return self.rng.choice(BINS)
        if self.lid in (2301, 2302):
            if tok in WV_INT.get(page, ()):
                return self.rng.choice(WV_INTS)
            if tok in WV_DT.get(page, ()):
                return self.rng.choice(WV_DATETIMES)
            if self.exts and self.rng.chance(1, 3):
                return self.rng.choice(self.exts)[0]
        return self.rng.choice(pool) if self.rng.chance(2, 3) else self.unique_text()

    # ---- elements ----------------------------------------------------------------------------
    def elt(self, tag, kids=None, attrs=None):
        name, page, tok, opts = tag
        ns = self.ns.get(page) if self.ns is not None else None
        return E(name, ns, attrs, kids)

    def root(self, kids):
        r = None
        for t in self.all_tags:
            if t[0] == self.lang["root"]:
                r = t
                break
        if r is None and self.token_root and self.tags:
            r = self.tags[0]         # the language's root name is not in its tag table (AirSync): use a tokenised root
        if r is None:
            return E(self.lang["root"], None, None, kids)
        return self.elt(r, kids)

    def interleave(self, tags):
        """order the tags so that consecutive ones come from different pages when possible"""
        by = {}
        for t in tags:
            by.setdefault(t[1], []).append(t)
        out, pages = [], sorted(by)
        while any(by[p] for p in pages):
            for p in pages:
                if by[p]:
                    out.append(by[p].pop(0))
        return out

    def tag_docs(self, per_doc, pool, style):
        """documents covering every tag: siblings under the root, every third tag nested in its predecessor,
        text in the leaves"""
        docs = []
        order = self.interleave(self.tags) if style % 2 == 0 else list(self.tags)
        for i in range(0, len(order), per_doc):
            chunk = order[i:i + per_doc]
            top = []
            for j, t in enumerate(chunk):
                leaf_kids = []
                r = self.rng.below(6)
                if r == 0:
                    leaf_kids = []                                      # empty element
                elif r == 1 and not (t[3] & 1):
                    leaf_kids = ["  "] if self.lid not in (2301, 2302) else [self.text_for(t, pool)]   # blank-only text
                else:
                    leaf_kids = [self.text_for(t, pool)]
                e = self.elt(t, leaf_kids)
                if j % 3 == 1 and top and not self.is_typed(chunk[j - 1]) and top[-1].name != self.lang["root"]:
                    par = top[-1]
                    # mixed content (unique text: repeated text followed by indentation is the D7 shape, which has
                    # its own documents) for some parents, element only for others
                    par.kids = [self.unique_text()] if self.rng.chance(1, 2) and self.lid not in (2301, 2302) else []
                    par.kids.append(e)
                else:
                    top.append(e)
            docs.append(self.root(top))
        return docs

    def attr_value(self, row, shared, forced=None):
        name, val, page, tok = row
        base = val or ""
        if self.lid == 1301 and name in ("created", "si-expires") or self.lid == 1701 and name == "timestamp":
            return self.rng.choice(DATETIMES)
        r = self.rng.below(10) if forced is None else forced
        if r == 14:
            return base + "q"                      # the row's value followed by exactly one octet
        if r == 15:
            # a value that stops inside a LONGER value prefix of the same attribute name (longest-prefix tie)
            longer = [x[1] for x in (self.attrs or []) if x[0] == name and x[1] and x[1].startswith(base) and len(x[1]) > len(base)]
            return longer[0][:-1] if longer else base + "r"
        if r in (10, 11, 12, 13):
            # a CASE VARIANT of the row's enumerated value (must not be taken for the value itself), alone or followed
            # by a case variant of a value token
            var = [base.upper(), base.lower(), base.title(), base.swapcase()][r - 10]
            if var == base:
                var = base.swapcase() if base.swapcase() != base else base + "X"
            if self.vals and self.rng.chance(1, 3):
                v = self.rng.choice(self.vals)[0]
                var += v.swapcase() if v.swapcase() != v else v
            return var
        if r == 9:
            return base + 'say "hi" & <go> \'now\' ]]> x ]] y > z'               # characters the XML generator must escape
        if r == 0:
            return base if base else "v"
        if r == 1:
            return base + "abc"
        if r == 2 and self.vals:
            v = self.rng.choice(self.vals)[0]
            return base + "pre" + v + "mid" + self.rng.choice(self.vals)[0]
        if r == 3 and self.vals:
            return base + self.rng.choice(self.vals)[0]
        if r == 4:
            return base + self.rng.choice(shared)
        if r == 5:
            return base[:-1] + "~" if len(base) > 1 else base + "q"       # prefix broken: another row or literal
        if r == 6 and self.vals:
            return base + self.rng.choice(self.vals)[0] + "x"             # one octet after a value token
        if r == 7 and self.vals:
            return base + "x" + self.rng.choice(self.vals)[0] + self.rng.choice(self.vals)[0]
        return base + "tail%d" % self.rng.below(5)

    def attr_docs(self, per_doc, shared):
        if self.attrs is None:
            return []
        rows = [r for r in self.attrs if ":" not in r[0]]
        docs, top, cur, used = [], [], None, set()
        ti = 0
        plan = []
        for row in rows:
            plan.append((row, 0))          # the exact pair of the row
            plan.append((row, 1))          # the row's value followed by a remainder
            plan.append((row, None))       # a random form
            if self.vals:
                plan.append((row, 6))
        for row in rows[:3]:
            plan.append((row, 9))
        for k, row in enumerate(rows):
            if row[1]:
                plan.append((row, 14))
                plan.append((row, 15))
        # attribute code page switches inside one element, under a tag of another page (attr and tag spaces are separate)
        pages = sorted({r[2] for r in rows})
        if len(pages) > 1:
            byp = {pg: [r for r in rows if r[2] == pg] for pg in pages}
            names = set()
            mix = []
            for pg in (pages[1], pages[0], pages[1], pages[0]):
                for r in byp[pg]:
                    if r[0] not in names:
                        names.add(r[0]); mix.append((r[0], self.attr_value(r, shared, 1))); break
            tagp = [t for t in self.tags if t[1] != 0] or self.tags
            self.mixed_page_elts = [self.elt(tagp[0], [self.elt(self.tags[0], [], mix[:2])], mix), self.elt(self.tags[0], [], list(reversed(mix)))]
        for k, row in enumerate(rows):
            if row[1]:
                plan.append((row, 10 + k % 4))
                if len(rows) < 40:
                    plan.append((row, 10 + (k + 1) % 4))
        for i, (row, forced) in enumerate(plan):
            if cur is None or row[0] in used or len(cur.attrs) >= 3:
                if cur is not None:
                    top.append(cur)
                if len(top) >= per_doc:
                    docs.append(self.root(top))
                    top = []
                t = self.tags[ti % len(self.tags)]
                ti += 1
                cur = self.elt(t, [self.unique_text()] if self.rng.chance(1, 3) and not (t[3] & 1) and self.lid not in (2301, 2302) else [])
                used = set()
            cur.attrs.append((row[0], self.attr_value(row, shared, forced)))
            used.add(row[0])
        if cur is not None:
            top.append(cur)
        top += getattr(self, "mixed_page_elts", [])
        if self.lid == 1901:
            top.append(E("PARM", None, [("NAME", "ICON"), ("VALUE", ICON)], []))
            top.append(E("PARM", None, [("NAME", "NAME"), ("VALUE", ICON)], []))
        docs.append(self.root(top))
        top = []
        # literal attribute, literal element, repeated attribute values
        t = self.tags[0]
        top.append(self.elt(t, [], [("zzunknown", shared[0]), ("zzother", shared[0])]))
        top.append(self.elt(t, [], [("zzthree", "xyz"), ("zzthree2", "xyz"), ("zzfour", "xyzw"), ("zzfour2", "xyzw")]))
        top.append(E("zzliteral", None, [("zzunknown", "plain value")], [E("zzliteral", None, [], ["in a literal"])]))
        docs.append(self.root(top))
        return docs

    def text_docs(self, d7, lit):
        """string table population: repeated text, repeated words, (d7: repeated text WITH surrounding blanks)"""
        ts = [t for t in self.tags if not (t[3] & 1)]
        if self.lid in (2301, 2302):
            ts = [t for t in ts if t[2] not in WV_INT.get(t[1], ()) and t[2] not in WV_DT.get(t[1], ())]
        pick = lambda k: ts[k % len(ts)]
        rep1, rep2 = "hello_world_text", "other string here"
        kids = []
        texts = [rep1, rep2, rep1, "prefix " + rep1 + " suffix", rep2, "once only words", "words only twice", "ab", "abc", "abc", "abcd", "abcd", "wxy", "wxyz", "wxyz ", "wxyz ",
                 " unique padded %d " % self.rng.below(100), "\tunique tab padded\n", rep2 + rep1, rep1 + "x", "y" + rep2, rep1 + "z" + rep1]
        if d7:
            texts += ["  " + rep1 + " ", "  " + rep1 + " ", " padded twice ", " padded twice ", "tail_string", "tail_string"]
        for k, tx in enumerate(texts):
            kids.append(self.elt(pick(k), [tx]))
        if lit:
            # literal names that are prefixes / inner substrings / suffixes of other literal names or of repeated texts
            for nm, tx in (("vendor-ext", "1"), ("ext", "2"), ("vendor", "3"), ("dor-e", "4"), ("world", "5"), ("hello", "6"), ("text", "7"),
                           ("hello_world", "8")):
                kids.append(E(nm, None, [("vend", "a"), ("vendorattr", "b"), ("attr", "c"), ("orat", "d")] if nm == "vendor" else [], [tx]))
            kids.append(E("zzlit", None, [], [rep1]))
            kids.append(E(rep1, None, [], ["zzlit and " + rep1]))          # a literal tag name that is also a text
        kids.append(self.elt(pick(3), ["mixed ", self.elt(pick(4), []), " content ", self.elt(pick(5), ["x"]), "  "]))
        kids.append(self.elt(pick(6), [("cdata", " raw <cdata> " + rep1 + " "), ]))
        kids.append(self.elt(pick(7), ["before", ("cdata", "inside"), "after"]))
        kids.append(self.elt(pick(8), [("cdata", "")]))
        if self.lid in (2001, 2101, 2201) and not d7:
            # the MIME type rewrite: inside and outside a MetInf <Type>, both types, any case
            meta = [t for t in self.all_tags if t[0] == "Meta"][0]
            typ = [t for t in self.all_tags if t[0] == "Type" and t[1] == 1][0]
            cmd = [t for t in self.all_tags if t[0] == "Cmd"][0]
            for mt in ("application/vnd.syncml-devinf+xml", "application/vnd.syncml.dmtnds+xml", "Application/VND.SyncML-DevInf+XML",
                       "application/vnd.syncml-devinf+wbxml", "application/vnd.syncml-devinf+xml "):
                kids.append(self.elt(meta, [self.elt(typ, [mt])]))
                kids.append(self.elt(cmd, [mt]))
        return [self.root(kids)]

    def pubid_docs(self):
        """the header's own string against the string table: the language's XML public identifier also occurs as content
        (twice: it is then already in the table when wbxml_fill_header adds it and the header must point at the
        existing entry; once; as a proper prefix / suffix / extension of other repeated strings)"""
        pub = self.lang["pub_text"]
        if not pub:
            return []
        ts = [t for t in self.tags if not self.is_typed(t)]
        if not ts:
            return []
        pick = lambda k: ts[k % len(ts)]
        docs = []
        for texts in ([pub, "between", pub],
                      ["first_repeated_string", "first_repeated_string", pub, pub, "x" + pub, pub + "y", pub[:-2], pub[:-2]],
                      [pub],
                      [pub + " tail", pub + " tail", "zz", pub[1:], pub[1:]]):
            docs.append(self.root([self.elt(pick(k), [tx]) for k, tx in enumerate(texts)]))
        return docs

    def boundary_docs(self):
        """lengths and offsets at the mb_u_int32 boundaries 127/128 and 16383/16384/16385: OPAQUE (CDATA) payloads, a string
        table of exactly 16384 octets, a literal and a table reference at offset 16384"""
        ts = [t for t in self.tags if not self.is_typed(t)]
        pick = lambda k: ts[k % len(ts)]
        docs = []
        docs.append(self.root([self.elt(pick(k), [("cdata", "c" * n)]) for k, n in enumerate((127, 128, 16383, 16384, 16385))]))
        big = "T" + "q" * 16381 + "Z"                      # 16383 characters: its table entry fills offsets 0..16383
        docs.append(self.root([self.elt(pick(0), [big]), self.elt(pick(1), [big]), self.elt(pick(2), ["other_string"]),
                               self.elt(pick(3), ["other_string"]), E("zzatoffset", None, [], ["x"])]))
        big2 = big[:-3]                                    # with the literal name "zz" (3 octets) the table is exactly 16384 long
        docs.append(self.root([self.elt(pick(0), [big2]), self.elt(pick(1), [big2]), E("zz", None, [], ["x"])]))
        return docs

    def embedded_docs(self):
        """SyncML messages with an embedded DevInf / DM DDF document"""
        if self.lid not in (2001, 2101, 2201):
            return []
        t = lambda n, p=0: [x for x in self.all_tags if x[0] == n and x[1] == p][0]
        inner = [('<DevInf xmlns="syncml:devinf"><VerDTD>1.%d</VerDTD><Man>shared text one</Man><Mod>shared text one</Mod><DevID>x</DevID></DevInf>'
                  % {2001: 0, 2101: 1, 2201: 2}[self.lid], "application/vnd.syncml-devinf+xml")]
        if self.lid == 2201:
            inner.append(('<MgmtTree xmlns="syncml:dmddf1.2"><VerDTD>1.2</VerDTD><Node><NodeName>shared text one</NodeName><Value>4571F7C3</Value></Node></MgmtTree>',
                          "application/vnd.syncml.dmtnds+xml"))
        docs = []
        for xml, mime in inner:
            item = self.elt(t("Item"), [self.elt(t("Meta"), [self.elt(t("Type", 1), [mime])]), self.elt(t("Data"), [("raw", xml)])])
            docs.append(self.root([self.elt(t("SyncBody"), [self.elt(t("Put"), [self.elt(t("CmdID"), ["1"]), item]),
                                                            self.elt(t("Results"), [self.elt(t("CmdID"), ["shared text one"])])])]))
        return docs

    def binary_docs(self):
        """binary-flagged elements (base64 in XML, OPAQUE in WBXML) with several content items: the decoded text is the
        LAST child then, where encoder->current_tag is no longer set"""
        bins = [t for t in self.tags if t[3] & 1]
        if not bins:
            return []
        other = [t for t in self.tags if not (t[3] & 1)]
        kids = []
        for k, b in enumerate(bins[:12]):
            child = self.elt(other[k % len(other)], [])
            kids.append(self.elt(b, [BINS[0][:4], child, BINS[0][4:]]))
            kids.append(self.elt(b, [child, BINS[k % len(BINS)]]))
            kids.append(self.elt(b, [BINS[1], self.elt(other[(k + 1) % len(other)], ["inner"]), " "]))
        # payloads whose DECODED octets are all white space (0x09-0x0d, 0x20): parse_text keeps them under a
        # binary-flagged tag (one OPAQUE), although the same text is dropped under every other tag -- so the element
        # must have its content bit and its END.  Every binary-flagged tag of the language, each blank payload.
        blank = []
        for k, b in enumerate(bins):
            for pl in BLANK_BINS:
                blank.append(self.elt(b, [pl]))
            rows = [r for r in (self.attrs or []) if ":" not in r[0]]
            blank.append(self.elt(b, [BLANK_BINS[k % len(BLANK_BINS)]], None if not rows else [(rows[0][0], "v")]))
        # a byte array that occurs twice is collected into the string table like any text (collect_strings does not look
        # at the flag) but is written as OPAQUE both times; the same octets as ordinary text elsewhere ARE cut against
        # that entry (STR_T); a byte array with a NUL that occurs twice is an entry nothing can reference
        shared = []
        nul2 = base64.b64encode(b"ab\x00cdef").decode()
        for k, b in enumerate(bins[:6]):
            o = other[k % len(other)]
            shared.append(self.elt(b, [BINS[1]]))
            shared.append(self.elt(o, ["abcd"]))
            shared.append(self.elt(b, [BINS[1]]))
            shared.append(self.elt(o, ["zz abcd yy"]))
            shared.append(self.elt(b, [nul2]))
            shared.append(self.elt(b, [nul2]))
            shared.append(self.elt(o, ["ab"]))
        return [self.root(kids), self.root(blank), self.root(shared)]


def documents(tj, rng, quick=True, token_root=False):
    """yields (lang_id, kind, xml_bytes, d7_shape)"""
    out = []
    for lang in tj["langs"]:
        g = LangGen(tj, lang, rng, token_root)
        pool = ["shared text one", "shared text one", "second shared text", "tiny", "x y", "shared_attr_value"]
        hdr = doctype(lang)
        per = 40
        style = rng.below(4)
        for k, d in enumerate(g.tag_docs(per, pool, style)):
            indent = [None, 1, 2, None][(k + style) % 4]
            out.append((lang["id"], "tags", (hdr + render(d, indent, rootdecl=g.rootdecl)).encode("utf-8"), False))
        for k, d in enumerate(g.attr_docs(30, ["shared_attr_value", "www.example.org/path"])):
            out.append((lang["id"], "attrs", (hdr + render(d, [None, 2][k % 2], rootdecl=g.rootdecl)).encode("utf-8"), False))
        for d in g.text_docs(False, True):
            out.append((lang["id"], "text-literal", (hdr + render(d, None, rootdecl=g.rootdecl)).encode("utf-8"), False))
        for d in g.text_docs(False, False):
            out.append((lang["id"], "text", (hdr + render(d, None, rootdecl=g.rootdecl)).encode("utf-8"), False))
            out.append((lang["id"], "text-indented", (hdr + render(d, 2, rootdecl=g.rootdecl)).encode("utf-8"), False))
        for d in g.pubid_docs():
            out.append((lang["id"], "pubid-in-table", (hdr + render(d, None, rootdecl=g.rootdecl)).encode("utf-8"), False))
        for d in g.embedded_docs():
            out.append((lang["id"], "embedded", (hdr + render(d, None, rootdecl=g.rootdecl)).encode("utf-8"), False))
        if lang["id"] in (1104, 1301):
            for d in g.boundary_docs():
                out.append((lang["id"], "boundary", (hdr + render(d, None, rootdecl=g.rootdecl)).encode("utf-8"), False))
        for d in g.binary_docs():
            out.append((lang["id"], "binary-mixed", (hdr + render(d, None, rootdecl=g.rootdecl)).encode("utf-8"), False))
        for d in g.text_docs(True, False):
            out.append((lang["id"], "text-d7", (hdr + render(d, None, rootdecl=g.rootdecl)).encode("utf-8"), True))
    return out


OPTION_TUPLES = [(v, st, kw, an) for v in (0, 1, 2, 3) for st in (0, 1) for kw in (0, 1) for an in (0, 1)]
