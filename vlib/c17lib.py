"""C17 helpers: pools of detached nodes over multi-page vocabularies, random flow-mode histories, and the python
specification of what remains of a history (`live`), independent of the Coq model."""
from .c18lib import hx, NAME_OK

LANGS = [2201, 2101, 2402, 2401, 2302, 2301, 1601, 1202, 1104, 1301]   # SyncML 1.2 / 1.1 (MetInf pages), ActiveSync, AirSync, WV CSP 1.2 / 1.1, PROV and WTA-WML (two attribute pages), WML, SI
MULTI = [2201, 2101, 2402, 2401, 2302, 2301, 1601, 1202]
EMBED = {2201: 2202, 2101: 2102}                           # SyncML -> the DevInf language of its embedded documents
COVERED_LANGS = [2201, 2101, 2402, 2401]                    # the concrete Coq instance: plain tokens + inline strings
PLAIN_TEXTS = [b"zq", b"zq7", b"Zq-x", b"qz 1", b"zzq"]       # no table value / extension token matches these
OTHER_TEXTS = [b"text/plain", b"hello world", b" a ", b"1 < 2 & 3", b"20260930T120000Z", b"42", b"T", b"www.example.org",
               b"application/vnd.syncml-devinf+xml", b"b64", b"chr", b"  ", b"line\nbreak", b"caf\xc3\xa9"]


class Pools:
    def __init__(self, tables):
        self.langs = {}
        for l in tables["langs"]:
            tb = tables["tables"]
            tags = tb[str(l["tags"])]["rows"] if l["tags"] >= 0 else []
            attrs = tb[str(l["attrs"])]["rows"] if l["attrs"] >= 0 else []
            bypage = {}
            for i, r in enumerate(tags):
                bypage.setdefault(r[1], []).append(i)
            self.langs[l["id"]] = {"tags": tags, "attrs": attrs, "bypage": bypage, "pages": sorted(bypage)}

    def element(self, rng, lid, depth, covered, xml_mode):
        """-> (spec string, info dict) ; covered: only what the concrete Coq instance models"""
        L = self.langs[lid]
        page = rng.choice(L["pages"])
        if rng.chance(1, 2) and len(L["pages"]) > 1:
            page = rng.choice(L["pages"][:3])          # low pages more often so that pages repeat and differ often
        for _ in range(10):
            ti = rng.choice(L["bypage"][page])
            row = L["tags"][ti]
            if row[3] & 1 and covered:
                continue                               # binary-flagged tags take opaque content: not in the concrete model
            if xml_mode and not NAME_OK.match(row[0]):
                continue
            break
        toks = ["e%d" % ti]
        if not covered and L["attrs"] and rng.chance(1, 2 if lid in (1601, 1202, 2402, 2401) else 4):
            for _k in range(rng.range(1, 2)):
                ai = rng.below(len(L["attrs"]))
                ar = L["attrs"][ai]
                if xml_mode and not NAME_OK.match(ar[0]):
                    continue
                v = (ar[1].encode() if ar[1] is not None else b"") + rng.choice([b"", b"v1", b"zq"])
                toks.append("a%d=%s" % (ai, hx(v)))
        kids = []
        nk = rng.choice([0, 0, 1, 1, 2, 3]) if depth > 0 else rng.choice([0, 0, 1])
        if row[3] & 1:
            nk = min(nk, 1)
        for _ in range(nk):
            if depth > 0 and rng.chance(1, 2) and not row[3] & 1:
                kids += self.element(rng, lid, depth - 1, covered, xml_mode)[0]
            else:
                tx = rng.choice(PLAIN_TEXTS) if covered else rng.choice(PLAIN_TEXTS + OTHER_TEXTS)
                if kids and kids[-1].startswith("x"):
                    continue                           # no adjacent text siblings (the tree API would have merged them)
                kids.append("x" + hx(tx))
        return toks + ["("] + kids + [")"], {"page": row[1], "has_kids": bool(kids)}

    def pool(self, rng, lid, covered, xml_mode, big=False):
        n = rng.range(8, 14) if big else rng.range(3, 6)
        specs, infos = [], []
        for _ in range(n):
            if rng.chance(1, 8) and specs:
                tx = rng.choice(PLAIN_TEXTS) if covered else rng.choice(PLAIN_TEXTS + OTHER_TEXTS)
                specs.append("x" + hx(tx))
                infos.append({"text": True, "has_kids": False})
            else:
                t, inf = self.element(rng, lid, 2, covered, xml_mode)
                specs.append(".".join(t))
                inf["text"] = False
                infos.append(inf)
        if not covered and rng.chance(1, 2):
            # nodes that encode to NOTHING (an empty text node, an empty CDATA section, a blank text when blanks are
            # ignored): they are still "the last node" for delete_last_node
            for z in rng.choice([["x-"], ["c.(.)"], ["x" + hx(b"  "), "x-"], ["x-", "c.(.)"]]):
                specs.append(z)
                infos.append({"text": True, "has_kids": False, "zero": True})
        if not covered and lid in EMBED and rng.chance(1, 2):
            # an element holding an EMBEDDED document (TREE node: SyncML <Data> with a DevInf document)
            sub = EMBED[lid]
            SL = self.langs[sub]
            def sidx(name):
                return next(i for i, r in enumerate(SL["tags"]) if r[0] == name)
            kids = ["e%d.(.x%s.)" % (sidx("VerDTD"), hx(rng.choice([b"1.2", b"1.1"]))), "e%d.(.x%s.)" % (sidx("Man"), hx(b"ACME"))]
            if rng.chance(1, 2):
                kids.append("e%d.(.x%s.)" % (sidx("DevID"), hx(b"dev-1")))
            data = next(i for i, r in enumerate(self.langs[lid]["tags"]) if r[0] == "Data")
            specs.append("e%d.(.t%d.(.e%d.(.%s.).).)" % (data, sub, sidx("DevInf"), ".".join(kids)))
            infos.append({"text": False, "has_kids": True, "page": 0, "embedded": True})
        if not covered and rng.chance(1, 2):
            # a binary-flagged element (its text is opaque / base64) and a text node, for the directed pattern below
            bins = [i for i, r in enumerate(self.langs[lid]["tags"]) if r[3] & 1 and (not xml_mode or NAME_OK.match(r[0]))]
            if bins:
                specs.append("e%d.(.x%s.)" % (rng.choice(bins), hx(b"b64")))
                infos.append({"text": False, "has_kids": True, "binary": True, "page": None})
                specs.append("x" + hx(rng.choice([b"b64", b"zq7"])))
                infos.append({"text": True, "has_kids": False})
        if not covered and lid in EMBED and rng.chance(1, 2):
            # a SyncML MetInf <Type> element and the MIME type of a WBXML DevInf document as a text node: after a raw start
            # of <Type> the XML generator rewrites '+wbxml' to '+xml' (it looks at current_tag), as it does in a tree
            ty = next((i for i, r in enumerate(self.langs[lid]["tags"]) if r[0] == "Type" and r[1] == 1), None)
            if ty is not None:
                specs.append("e%d.(.x%s.)" % (ty, hx(b"text/plain")))
                infos.append({"text": False, "has_kids": True, "mime_type_elt": True, "page": 1})
                specs.append("x" + hx(b"application/vnd.syncml-devinf+wbxml"))
                infos.append({"text": True, "has_kids": False, "mime": True})
        return "/".join(specs), infos


def history(rng, infos, nops, raw=True, drate=20):
    """random history over the pool; raw element starts/ends roughly bracketed, deletions anywhere.
    raw=False: nodes only, each pool node at most once (so that the literal batch encoding exists for every remainder)"""
    ops, open_stack = [], []
    elts = [i for i, inf in enumerate(infos) if not inf["text"]]
    bins = [i for i, inf in enumerate(infos) if inf.get("binary")]
    texts = [i for i, inf in enumerate(infos) if inf["text"] and not inf.get("zero")]
    zeros = [i for i, inf in enumerate(infos) if inf.get("zero")]
    unused = list(range(len(infos)))
    plain_texts = [i for i, inf in enumerate(infos) if inf["text"] and not inf.get("zero") and not inf.get("mime")]
    pairs = [(i, j) for i in bins for j in plain_texts] + \
            [(i, j) for i, a in enumerate(infos) if a.get("mime_type_elt") for j, b in enumerate(infos) if b.get("mime")]
    for _ in range(nops):
        r = rng.below(100)
        if zeros and rng.chance(1, 10):
            # directed: a node that writes nothing, then a deletion: nothing may disappear
            ops += ["N%d" % rng.below(len(infos)), "N%d" % rng.choice(zeros), "D"]
            continue
        if raw and bins and texts and rng.chance(1, 12):
            # directed: a raw start of a binary-flagged element, deleted, then a text node (current_tag must not survive)
            ops += ["S%d,1" % rng.choice(bins), "D", "N%d" % rng.choice(texts)]
            continue
        if pairs and rng.chance(1, 9):
            # directed: raw start of a binary-flagged element (or of MetInf <Type>), ONE detached text node, raw end: what the
            # text becomes depends on current_tag, which the raw start must leave set; the batch encoding of the same
            # element with that text as its only child is the reference (props/C17/check.py, bracket oracle)
            i, j = rng.choice(pairs)
            ops += ["S%d,1" % i, "N%d" % j, "F%d,1" % i]
            continue
        if r < drate:
            ops.append("D")
        elif r < drate + 6:
            ops.append("G")
        elif not raw:
            if not unused:
                break
            ops.append("N%d" % unused.pop(rng.below(len(unused))))
        elif r < drate + 16 and elts:
            i = rng.choice(elts)
            c = 1 if infos[i]["has_kids"] else 0
            ops.append("S%d,%d" % (i, c))
            open_stack.append((i, c))
        elif r < drate + 26 and open_stack:
            i, c = open_stack.pop()
            ops.append("F%d,%d" % (i, c))
        else:
            ops.append("N%d" % rng.below(len(infos)))
    return ops


class Spec:
    """what remains of a history (python specification): fragments, the mark set by the last node, header seen"""

    def __init__(self):
        self.frags, self.mark, self.seen = [], 0, False

    def step(self, op):
        if op[0] in "NM":
            self.mark = len(self.frags)
            self.frags = self.frags + [op]
            self.seen = True
        elif op[0] in "SF":
            self.frags = self.frags + [op]
        elif op[0] == "D":
            self.frags = self.frags[:self.mark]


def live_prefixes(ops):
    """-> list (one per op) of (tuple of live fragments, seen)"""
    s, out = Spec(), []
    for o in ops:
        s.step(o)
        out.append((tuple(s.frags), s.seen))
    return out


def branches(lives):
    """maximal elements (by the prefix order) of the set of live lists: the replay runs needed as oracle"""
    uniq = sorted(set(l for l, _ in lives), key=lambda t: (-len(t), t))
    keep = []
    for t in uniq:
        if not any(k[:len(t)] == t for k in keep):
            keep.append(t)
    return keep
