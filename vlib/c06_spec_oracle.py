"""Third oracle of C06 / C07: the PROVED strict decoder of the parser development (coq/Model/Spec.v `decode_lang`,
theorem C04_strict_decoder_lang_roundtrip), extracted in driver C04 (command `strict <lang id> <hex>`), run on the
C's bytes.  Its event stream (what a conforming parser reports) is turned into the same infoset shape as
c06_oracle.source_infoset and compared with the source by c03_lib.compare.  Three things are parser-level, not
XML-level, and are mapped before comparing: the content of a binary-flagged element is raw octets (base64 in XML); the
MIME type in a SyncML MetInf <Type> is in its WBXML form; an embedded document is an opaque WBXML document (decoded
recursively by vlib/strictdec.py, not here: both sides are replaced by a marker)."""
import base64
import copy

from . import c03_lib, strictdec
from .c06_oracle import merge_text, SYNCML

MARK = "\u27e6embedded document\u27e7"


def events_infoset(answer, tj, lang_id):
    """'ok SD:.. SE:.. CH:.. EE:.. ED' -> root element dict, or None when the decoder refused ('none')"""
    if not answer or not answer.startswith("ok "):
        return None
    T = strictdec.Tables(tj, lang_id)
    root = {"name": None, "ns": None, "attrs": [], "kids": [], "bin": False}
    stack = [root]

    def hx(h):
        return bytes.fromhex(h if h != "-" else "")

    def nm(t):
        return hx(t.rsplit(".", 1)[1]).decode("utf-8", "replace")
    for ev in answer[3:].split(" "):
        k, _, rest = ev.partition(":")
        if k == "SE":
            parts = rest.split(",")
            tag = parts[0].split(".")
            binary = False
            if tag[0] == "T":
                rows = T.tag_by.get((int(tag[1]), int(tag[2])))
                binary = bool(rows and rows[0][1] & 1)
            e = {"name": nm(parts[0]), "ns": None, "attrs": [], "kids": [], "bin": binary}
            for a in parts[1:]:
                an, _, av = a.partition("=")
                e["attrs"].append((nm(an), hx(av).decode("utf-8", "replace")))
            stack[-1]["kids"].append(e)
            stack.append(e)
        elif k == "EE":
            stack.pop()
        elif k == "CH":
            raw = hx(rest)
            cur = stack[-1]
            if cur["bin"]:
                txt = base64.b64encode(raw).decode()
            elif lang_id in SYNCML and cur["name"] == "Data" and raw[:1] in (b"\x00", b"\x01", b"\x02", b"\x03") and b"\x6a" in raw[:8] + b"\x6a" * (raw[:1] == b"\x00"):
                txt = MARK
            else:
                txt = raw.decode("utf-8", "replace")
                if lang_id in SYNCML and cur["name"] == "Type":
                    if txt == "application/vnd.syncml-devinf+wbxml" or (lang_id == 2201 and txt == "application/vnd.syncml.dmtnds+wbxml"):
                        txt = txt[:-5] + "xml"
            cur["kids"].append(("text", txt))
    els = [x for x in root["kids"] if isinstance(x, dict)]
    if not els:
        return None
    merge_text(els[0])
    return els[0]


def mark_embedded(e, lang_id):
    """source side: an embedded DevInf / MgmtTree element inside <Data> becomes the marker"""
    if lang_id not in SYNCML:
        return e
    e = copy.deepcopy(e)

    def walk(x):
        if x["name"] == "Data":
            x["kids"] = [("text", MARK) if isinstance(k, dict) and k["name"] in ("DevInf", "MgmtTree") else k for k in x["kids"]]
        for k in x["kids"]:
            if isinstance(k, dict):
                walk(k)
    walk(e)
    return e


def judge(src_infoset, answer, tj, lang_id, keep_ws):
    inf = events_infoset(answer, tj, lang_id)
    if inf is None:
        return ["Spec.decode_lang refuses the document: %s" % (answer or "")[:80]]
    return c03_lib.compare(c03_lib.Aliases(tj, lang_id), mark_embedded(src_infoset, lang_id), inf, keep_ws)
