import sys
sys.path.insert(0,'.')
from vlib import common
print(common.build_driver("C05"))
